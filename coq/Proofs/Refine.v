(* Proofs/Refine.v -- the public entry points of the model (Api.v) equal the reference
   parsers (Spec.v), for every environment satisfying EnvOk: request, response, header
   block; the array after the call is the headers the reference keeps, in order. *)
From Coq Require Import List NArith ZArith Lia Bool ZifyBool ZifyN ZifyNat.
From HV Require Import Cursor Scan Model Api Spec.
From HV.Proofs Require Import Base ScanLoops EnvOk StartLine Headers RefFacts.
Import ListNotations.

(* the caller's array after `hs` headers have been stored *)
Definition slots_of (hs : list (sl * sl)) (arr : list slot) : list slot :=
  map (fun h => SWritten (fst h) (snd h)) hs ++ skipn (length hs) arr.

Lemma slots_of_nil arr : slots_of [] arr = arr.
Proof. reflexivity. Qed.

Lemma slots_of_length hs arr : length hs <= length arr -> length (slots_of hs arr) = length arr.
Proof. intros H. unfold slots_of. rewrite app_length, map_length, skipn_length. lia. Qed.

Lemma write_slot_app : forall a b s, length a <= length a ->
  write_slot (length a) s (a ++ b) = match b with [] => None | _ :: b' => Some (a ++ s :: b') end.
Proof.
  induction a as [|x a IH]; intros b s _.
  - destruct b; reflexivity.
  - cbn [length app write_slot]. rewrite IH by lia. destruct b; reflexivity.
Qed.

Lemma write_slot_slots_of hs arr n v :
  write_slot (length hs) (SWritten n v) (slots_of hs arr) =
  if Nat.ltb (length hs) (length arr) then Some (slots_of (hs ++ [(n, v)]) arr) else None.
Proof.
  unfold slots_of.
  replace (length hs) with (length (map (fun h : sl * sl => SWritten (fst h) (snd h)) hs)) at 1
    by apply map_length.
  rewrite write_slot_app by lia.
  destruct (Nat.ltb_spec (length hs) (length arr)) as [H|H].
  - destruct (skipn (length hs) arr) as [|x r] eqn:Es.
    + pose proof (skipn_length (length hs) arr) as Hl. rewrite Es in Hl. cbn [length] in Hl. lia.
    + f_equal. rewrite map_app, <- app_assoc. cbn [map app fst snd]. f_equal. f_equal.
      rewrite app_length. cbn [length]. replace (length hs + 1) with (S (length hs)) by lia.
      assert (skipn 1 (skipn (length hs) arr) = r) by (rewrite Es; reflexivity).
      rewrite skipn_add in H0. replace (length hs + 1) with (S (length hs)) in H0 by lia. symmetry. exact H0.
  - rewrite skipn_all2 by lia. reflexivity.
Qed.

Definition shift_status (start : nat) (st : status) : status :=
  match st with Complete o => Complete (o - start) | x => x end.

Section WithEnv.
Variable E : env.
Hypothesis HE : env_ok E.
Variable fuel : nat.
Variable hc : hcfg.

Lemma headers_loop_agree : forall f f' l p start hs arr0,
  length l < f -> length l < f' -> length l < fuel -> bytes_ok l ->
  headers_loop E fuel hc f start (length hs) (slots_of hs arr0) (mkcur p [] l)
  = (let (st, hs') := ref_header_block hc f' (length arr0) hs p l in
     (shift_status start st, length hs', slots_of hs' arr0)).
Proof.
  induction f as [|f IH]; intros f' l p start hs arr0 Hf Hf' Hfu Hb; [lia|].
  destruct f' as [|f']; [lia|].
  cbn [headers_loop ref_header_block].
  pose proof (header_line_agree E HE fuel hc (Nat.eqb (length hs) 0) l p Hfu Hb) as H.
  replace (null hs) with (Nat.eqb (length hs) 0) by (destruct hs; reflexivity).
  pose proof (ref_header_line_adv hc (Nat.eqb (length hs) 0) p l) as Hadv.
  destruct (ref_header_line hc (Nat.eqb (length hs) 0) p l) as [x o r| |e]; cbn [agree_h] in H.
  - destruct H as [a [c' (Hm & Hrel & Hpos & Hrest & Htok)]]. rewrite Hm. cbn [stage].
    destruct Hadv as [k (Hk0 & Hk & -> & ->)].
    destruct a as [| |name value]; cbn [hrel] in Hrel; subst x.
    + rewrite Hpos. reflexivity.
    + assert (Hc' : c' = mkcur (k + p) [] (skipn k l)).
      { destruct c' as [p' t' l']. cbn [apos tokrev pre rest] in *. rewrite (Htok ltac:(discriminate)) in *.
        cbn [length] in Hpos. subst. f_equal. }
      subst c'. apply IH; try (rewrite skipn_length; lia). apply bytes_ok_skipn. exact Hb.
    + destruct Hrel as [-> _].
      assert (Hc' : c' = mkcur (k + p) [] (skipn k l)).
      { destruct c' as [p' t' l']. cbn [apos tokrev pre rest] in *. rewrite (Htok ltac:(discriminate)) in *.
        cbn [length] in Hpos. subst. f_equal. }
      subst c'. rewrite write_slot_slots_of.
      destruct (Nat.ltb (length hs) (length arr0)); [|reflexivity].
      replace (S (length hs)) with (length (hs ++ [(name, trim_value value)])) by (rewrite app_length; cbn [length]; lia).
      apply IH; try (rewrite skipn_length; lia). apply bytes_ok_skipn. exact Hb.
  - rewrite H. reflexivity.
  - rewrite H. reflexivity.
Qed.

(* parse_headers_iter_uninit from a committed cursor *)
Lemma headers_iter_agree : forall l p arr,
  length l < fuel -> bytes_ok l ->
  parse_headers_iter_uninit E fuel hc arr (mkcur p [] l)
  = (let (st, hs) := ref_headers hc (length arr) p l in
     (shift_status p st, length hs, slots_of hs arr)).
Proof.
  intros l p arr Hfu Hb. unfold parse_headers_iter_uninit, ref_headers.
  cbn [apos tokrev pre length Nat.add].
  apply (headers_loop_agree fuel (S (length l)) l p p [] arr); try lia; assumption.
Qed.
End WithEnv.
