(* SrcChunk.v -- parse_chunk_size over the translated source; see Src.v *)
From Coq Require Import List NArith Bool.
From HV Require Import Cursor Scan Model Imp ImpLib.
From HV.Generated Require Import Lib.
From HV.Proofs Require Import TieBase TieChunk.
Import ListNotations.

(* parse_chunk_size as translated, run the way the Rust entry point runs it *)
Definition src_parse_chunk_size (dbg : bool) (buf : list N) : status * N :=
  match g_parse_chunk_size dbg (S (length buf)) (cur_new buf) with
  | Done (n, size) _ => (Complete n, size)
  | Part => (Partial, 0%N)
  | Fail e => (Error e, 0%N)
  | Fault f => (Faulted f, 0%N)
  end.
Lemma src_parse_chunk_size_eq dbg buf : src_parse_chunk_size dbg buf = parse_chunk_size dbg buf.
Proof.
  unfold src_parse_chunk_size, parse_chunk_size. rewrite tie_chunk by reflexivity.
  destruct (chunk_loop _ _ _ _ _ _ _); reflexivity.
Qed.

Definition chunk_source_is_model : Prop :=
  forall dbg buf, src_parse_chunk_size dbg buf = parse_chunk_size dbg buf.
Theorem src_tie_chunk : chunk_source_is_model.
Proof. exact src_parse_chunk_size_eq. Qed.
