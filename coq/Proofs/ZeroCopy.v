(* Proofs/ZeroCopy.v -- every slice the reference parsers hand back is a sub-slice of the
   buffer (its contents ARE the buffer bytes at that offset), lies inside the region its
   stage consumed, and slices appear in input order (C04, dynamic half). *)
From Coq Require Import List NArith ZArith Lia Bool ZifyBool ZifyN ZifyNat.
From HV Require Import Cursor Scan Model Api Spec Oracle.
From HV.Proofs Require Import Base RefFacts StartLine.
Import ListNotations.

(* s lies in buf, between lo and hi, and its contents are the buffer's *)
Definition in_buf (buf : list N) (lo hi : nat) (s : sl) : Prop :=
  match s with
  | Sub o bs => lo <= o /\ o + length bs <= hi /\ sub_of buf o (length bs) = bs
  | Ext _ => lo <= hi       (* located elsewhere: only the empty reason (and the internal "dropped" mark) *)
  end.

Lemma in_buf_weaken buf lo hi lo' hi' s : lo' <= lo -> hi <= hi' -> in_buf buf lo hi s -> in_buf buf lo' hi' s.
Proof. destruct s; cbn [in_buf]; [intros ? ? (? & ? & ?); repeat split; auto; lia|lia]. Qed.

Lemma sub_of_prefix buf off m rest : skipn off buf = m ++ rest -> sub_of buf off (length m) = m.
Proof. intros H. unfold sub_of. rewrite H, firstn_app, Nat.sub_diag, firstn_all. cbn [firstn]. apply app_nil_r. Qed.

Lemma span_split p l : l = fst (span p l) ++ snd (span p l).
Proof. apply span_app. Qed.

Section ZC.
Variable buf : list N.

Lemma ref_method_in off l s o r :
  l = skipn off buf -> ref_method off l = ROk s o r ->
  in_buf buf off o s /\ exists m, s = Sub off m /\ m <> [].
Proof.
  intros Hl. unfold ref_method. pose proof (span_split tchar l) as Hs.
  destruct (span tchar l) as [m t]. cbn [fst snd] in Hs.
  destruct t as [|b r']; [discriminate|]. destruct (null m) eqn:En; [discriminate|].
  destruct (is 32 b); [|discriminate]. intros [= <- <- <-].
  split; [|exists m; split; [reflexivity|destruct m; [discriminate|discriminate]]].
  cbn [in_buf]. repeat split; try lia. apply (sub_of_prefix buf off m (b :: r')). rewrite <- Hl. exact Hs.
Qed.

Lemma ref_target_in off l s o r :
  l = skipn off buf -> ref_target off l = ROk s o r ->
  in_buf buf off o s /\ exists m, s = Sub off m /\ m <> [].
Proof.
  intros Hl. unfold ref_target. pose proof (span_split uri_char l) as Hs.
  destruct (span uri_char l) as [m t]. cbn [fst snd] in Hs.
  destruct t as [|b r']; [discriminate|]. destruct (negb (is 32 b)); [discriminate|].
  destruct (null m) eqn:En; [discriminate|]. destruct (negb (utf8_valid m)); [discriminate|].
  intros [= <- <- <-].
  split; [|exists m; split; [reflexivity|destruct m; [discriminate|discriminate]]].
  cbn [in_buf]. repeat split; try lia. apply (sub_of_prefix buf off m (b :: r')). rewrite <- Hl. exact Hs.
Qed.

Lemma ref_reason_in off l s o r :
  l = skipn off buf -> ref_reason off l = ROk s o r -> in_buf buf off o s.
Proof.
  intros Hl. unfold ref_reason. pose proof (span_split reason_char l) as Hs.
  destruct (span reason_char l) as [t rr]. cbn [fst snd] in Hs.
  pose proof (ref_eol_adv Status (length t + off) rr) as A.
  destruct (ref_eol Status (length t + off) rr) as [u o' r'| |e]; try discriminate.
  intros [= <- <- <-]. destruct A as [k (_ & _ & -> & _)].
  destruct (forallb _ t); [|cbn [in_buf]; lia]. cbn [in_buf]. repeat split; try lia.
  apply (sub_of_prefix buf off t rr). rewrite <- Hl. exact Hs.
Qed.

(* ---- header values ---- *)
(* rev (drop_while p racc) is a prefix of rev racc *)
Lemma rev_drop_while_prefix p (racc : list N) : exists suffix, rev racc = rev (drop_while p racc) ++ suffix.
Proof.
  induction racc as [|x r IH]; [exists []; reflexivity|]. cbn [drop_while].
  destruct (p x).
  - destruct IH as [sfx H]. exists (sfx ++ [x]). cbn [rev]. rewrite H, app_assoc. reflexivity.
  - exists []. rewrite app_nil_r. reflexivity.
Qed.

Lemma sub_of_app_prefix off a b : sub_of buf off (length (a ++ b)) = a ++ b -> sub_of buf off (length a) = a.
Proof.
  unfold sub_of. intros H. rewrite app_length in H.
  assert (firstn (length a) (firstn (length a + length b) (skipn off buf)) = firstn (length a) (a ++ b)) by (rewrite H; reflexivity).
  rewrite firstn_firstn, Nat.min_l in H0 by lia. rewrite H0, firstn_app, Nat.sub_diag, firstn_all. cbn [firstn]. apply app_nil_r.
Qed.

Lemma trimmed_in voff racc hi :
  sub_of buf voff (length racc) = rev racc -> voff + length racc <= hi ->
  in_buf buf voff hi (Sub voff (rev' (drop_while is_trim racc))).
Proof.
  intros H Hhi. destruct (rev_drop_while_prefix is_trim racc) as [sfx Hs].
  unfold rev'. rewrite <- rev_alt.
  assert (Hl : length racc = length (rev (drop_while is_trim racc) ++ sfx)) by (rewrite <- Hs, rev_length; reflexivity).
  cbn [in_buf]. split; [lia|]. split.
  - rewrite Hl, app_length in Hhi. lia.
  - rewrite Hs, Hl in H. apply sub_of_app_prefix in H. exact H.
Qed.

Variable hc : hcfg.

(* the bytes consumed so far extend the accumulated value *)
Lemma sub_of_snoc voff racc b r off :
  sub_of buf voff (length racc) = rev racc -> off = length racc + voff -> skipn off buf = b :: r ->
  sub_of buf voff (length (b :: racc)) = rev (b :: racc).
Proof.
  intros H -> Hs. unfold sub_of in *. cbn [length rev].
  replace (S (length racc)) with (length racc + 1) by lia.
  rewrite firstn_add, H. f_equal. rewrite skipn_add. rewrite Nat.add_comm, Hs. reflexivity.
Qed.

Lemma ref_value_lines_in : forall n l voff racc off s o r, length l <= n ->
  l = skipn off buf -> off = length racc + voff -> sub_of buf voff (length racc) = rev racc ->
  ref_value_lines hc voff racc off l = ROk s o r ->
  in_buf buf voff o s.
Proof.
  induction n as [|n IH]; intros l voff racc off s o r Hn Hl Hoff Hacc H.
  { destruct l; [discriminate|cbn [length] in Hn; lia]. }
  destruct l as [|b l']; [discriminate|]. cbn [length] in Hn. cbn [ref_value_lines] in H.
  assert (Hl' : skipn (S off) buf = l').
  { replace (S off) with (off + 1) by lia. rewrite <- skipn_add, <- Hl. reflexivity. }
  destruct (value_char b).
  { assert (G3 : S off = length (b :: racc) + voff) by (cbn [length]; lia).
    assert (G4 : sub_of buf voff (length (b :: racc)) = rev (b :: racc)) by (eapply sub_of_snoc; eauto).
    exact (IH l' voff (b :: racc) (S off) s o r ltac:(lia) (eq_sym Hl') G3 G4 H). }
  destruct (is 13 b) eqn:E13.
  { destruct l' as [|b2 l2]; [discriminate|]. destruct (is 10 b2) eqn:E10; cbn [negb] in H; [|discriminate].
    cbn [length] in Hn.
    assert (Fin : forall o', o' = 2 + off ->
             in_buf buf voff o' (Sub voff (rev' (drop_while is_trim racc)))).
    { intros o' ->. apply trimmed_in; [exact Hacc|lia]. }
    destruct (allow_obsolete_multiline_headers hc).
    - destruct l2 as [|b3 l3]; [discriminate|]. destruct (ws b3).
      + apply is_eq in E13, E10. subst b b2.
        assert (G1 : length (b3 :: l3) <= n) by (cbn [length] in *; lia).
        assert (G2 : b3 :: l3 = skipn (2 + off) buf).
        { replace (2 + off) with (S off + 1) by lia. rewrite <- skipn_add, Hl'. reflexivity. }
        assert (G3 : 2 + off = length (10%N :: 13%N :: racc) + voff) by (cbn [length]; lia).
        assert (G4 : sub_of buf voff (length (10%N :: 13%N :: racc)) = rev (10%N :: 13%N :: racc)).
        { assert (H1 : sub_of buf voff (length (13%N :: racc)) = rev (13%N :: racc)) by (eapply sub_of_snoc; eauto).
          eapply (sub_of_snoc voff (13%N :: racc) 10%N (b3 :: l3) (S off)); [exact H1|cbn [length]; lia|].
          rewrite Hl'. reflexivity. }
        exact (IH (b3 :: l3) voff (10%N :: 13%N :: racc) (2 + off) s o r G1 G2 G3 G4 H).
      + injection H as <- <- <-. apply Fin. reflexivity.
    - injection H as <- <- <-. apply Fin. reflexivity. }
  destruct (is 10 b) eqn:E10.
  { assert (Fin : forall o', o' = S off ->
             in_buf buf voff o' (Sub voff (rev' (drop_while is_trim racc)))).
    { intros o' ->. apply trimmed_in; [exact Hacc|lia]. }
    destruct (allow_obsolete_multiline_headers hc).
    - destruct l' as [|b3 l3]; [discriminate|]. destruct (ws b3).
      + apply is_eq in E10. subst b.
        assert (G1 : length (b3 :: l3) <= n) by lia.
        assert (G3 : S off = length (10%N :: racc) + voff) by (cbn [length]; lia).
        assert (G4 : sub_of buf voff (length (10%N :: racc)) = rev (10%N :: racc)) by (eapply sub_of_snoc; eauto).
        exact (IH (b3 :: l3) voff (10%N :: racc) (S off) s o r G1 (eq_sym Hl') G3 G4 H).
      + injection H as <- <- <-. apply Fin. reflexivity.
    - injection H as <- <- <-. apply Fin. reflexivity. }
  pose proof (ref_invalid_adv (ignore_invalid_headers hc) HeaderValue off (b :: l') ltac:(discriminate)) as A.
  destruct (ref_invalid _ _ off (b :: l')); cbn [rbind] in H; try discriminate.
  injection H as <- <- <-. destruct A as [k (_ & _ & -> & _)]. cbn [in_buf]. lia.
Qed.

Lemma ref_value_start_in : forall n l off s o r, length l <= n ->
  l = skipn off buf -> ref_value_start hc off l = ROk s o r -> in_buf buf off o s.
Proof.
  induction n as [|n IH]; intros l off s o r Hn Hl H.
  { destruct l; [discriminate|cbn [length] in Hn; lia]. }
  destruct l as [|b l']; [discriminate|]. cbn [length] in Hn. cbn [ref_value_start] in H.
  assert (Hl' : skipn (S off) buf = l').
  { replace (S off) with (off + 1) by lia. rewrite <- skipn_add, <- Hl. reflexivity. }
  destruct (ws b).
  { pose proof (IH l' (S off) s o r ltac:(lia) (eq_sym Hl') H) as G.
    eapply in_buf_weaken; [| |exact G]; lia. }
  destruct (value_char b).
  { eapply (ref_value_lines_in (S (length l')) (b :: l') off [] off); eauto. }
  assert (Emp : forall o', off <= o' -> in_buf buf off o' (Sub off [])).
  { intros o' Ho. cbn [in_buf length]. split; [lia|]. split; [lia|reflexivity]. }
  destruct (is 13 b).
  { destruct l' as [|b2 l2]; [discriminate|]. destruct (is 10 b2); cbn [negb] in H; [|discriminate].
    cbn [length] in Hn.
    destruct (allow_obsolete_multiline_headers hc).
    - destruct l2 as [|b3 l3]; [discriminate|]. destruct (ws b3).
      + assert (G1 : length (b3 :: l3) <= n) by (cbn [length] in *; lia).
        assert (G2 : b3 :: l3 = skipn (2 + off) buf).
        { replace (2 + off) with (S off + 1) by lia. rewrite <- skipn_add, Hl'. reflexivity. }
        pose proof (IH (b3 :: l3) (2 + off) s o r G1 G2 H) as G.
        eapply in_buf_weaken; [| |exact G]; lia.
      + injection H as <- <- <-. apply Emp. lia.
    - injection H as <- <- <-. apply Emp. lia. }
  destruct (is 10 b).
  { destruct (allow_obsolete_multiline_headers hc).
    - destruct l' as [|b3 l3]; [discriminate|]. destruct (ws b3).
      + pose proof (IH (b3 :: l3) (S off) s o r ltac:(lia) (eq_sym Hl') H) as G.
        eapply in_buf_weaken; [| |exact G]; lia.
      + injection H as <- <- <-. apply Emp. lia.
    - injection H as <- <- <-. apply Emp. lia. }
  pose proof (ref_invalid_adv (ignore_invalid_headers hc) HeaderValue off (b :: l') ltac:(discriminate)) as A.
  destruct (ref_invalid _ _ off (b :: l')); cbn [rbind] in H; try discriminate.
  injection H as <- <- <-. destruct A as [k (_ & _ & -> & _)]. cbn [in_buf]. lia.
Qed.

(* one header line: name then value, inside the line, in order *)
Definition line_in (lo hi : nat) (x : rline) : Prop :=
  match x with
  | LHeader n v =>
      exists mid, in_buf buf lo mid n /\ in_buf buf mid hi v /\ (exists m, n = Sub lo m /\ m <> [])
  | _ => True
  end.

Lemma ref_value_line_in name off l x o r lo :
  l = skipn off buf -> in_buf buf lo off name -> (exists m, name = Sub lo m /\ m <> []) ->
  ref_value hc name off l = ROk x o r -> line_in lo o x.
Proof.
  intros Hl Hn Hm. unfold ref_value.
  destruct (ref_value_start hc off l) as [v o' r'| |e] eqn:Ev; cbn [rbind]; try discriminate.
  intros [= <- <- <-]. destruct (dropped v); [exact I|].
  cbn [line_in]. exists off. split; [exact Hn|]. split; [|exact Hm].
  eapply (ref_value_start_in (length l)); eauto.
Qed.

Lemma ref_header_line_in first off l x o r :
  l = skipn off buf -> ref_header_line hc first off l = ROk x o r -> line_in off o x.
Proof.
  intros Hl. unfold ref_header_line. destruct l as [|b l']; [discriminate|].
  destruct (is 13 b).
  { destruct l' as [|b2 l2]; [discriminate|]. destruct (is 10 b2); [|discriminate]. intros [= <- <- <-]. exact I. }
  destruct (is 10 b); [intros [= <- <- <-]; exact I|].
  destruct (negb (tchar b)) eqn:Et.
  { destruct (allow_space_before_first_header_name hc && first && ws b).
    - destruct (span ws (b :: l')). intros [= <- <- <-]. exact I.
    - intros H. pose proof H as H'. unfold ref_invalid in H'.
      destruct (ignore_invalid_headers hc); cbn [negb] in H'; [|discriminate].
      destruct (span _ (b :: l')) as [junk rr]. destruct rr as [|b1 r1]; [discriminate|].
      destruct (is 0 b1); [discriminate|]. destruct (is 10 b1); [injection H' as <- _ _; exact I|].
      destruct r1 as [|b2 r2]; [discriminate|]. destruct (is 10 b2); [injection H' as <- _ _; exact I|discriminate]. }
  pose proof (span_split tchar (b :: l')) as Hs.
  destruct (span tchar (b :: l')) as [name r1] eqn:Esp. cbn [fst snd] in Hs.
  assert (Hne : name <> []).
  { cbn [span] in Esp. apply negb_false_iff in Et. rewrite Et in Esp. destruct (span tchar l'). injection Esp as <- _. discriminate. }
  destruct r1 as [|c r2]; [discriminate|].
  assert (Hname : in_buf buf off (length name + off) (Sub off name)).
  { cbn [in_buf]. repeat split; try lia. apply (sub_of_prefix buf off name (c :: r2)). rewrite <- Hl. exact Hs. }
  assert (Hr2 : r2 = skipn (S (length name + off)) buf).
  { replace (S (length name + off)) with (off + (length name + 1)) by lia. rewrite <- skipn_add, <- Hl, Hs.
    rewrite <- skipn_add, skipn_app, skipn_all, Nat.sub_diag. reflexivity. }
  assert (Inv : forall ig e o0 l0 x0 oo rr, ref_invalid ig e o0 l0 = ROk x0 oo rr -> x0 = LSkip).
  { intros ig e o0 l0 x0 oo rr H'. unfold ref_invalid in H'. destruct ig; cbn [negb] in H'; [|discriminate].
    destruct (span _ l0) as [junk rr']. destruct rr' as [|b1 r1]; [discriminate|].
    destruct (is 0 b1); [discriminate|]. destruct (is 10 b1); [injection H' as <- _ _; reflexivity|].
    destruct r1 as [|b2 r2']; [discriminate|]. destruct (is 10 b2); [injection H' as <- _ _; reflexivity|discriminate]. }
  destruct (is 58 c).
  { intros H. eapply (ref_value_line_in (Sub off name) (S (length name + off)) r2); eauto.
    eapply in_buf_weaken; [| |exact Hname]; lia. }
  destruct (allow_spaces_after_header_name hc && ws c).
  - pose proof (span_split ws (c :: r2)) as Hw.
    destruct (span ws (c :: r2)) as [w r3]. cbn [fst snd] in Hw.
    destruct r3 as [|c' r4]; [discriminate|].
    destruct (is 58 c').
    + intros H. eapply (ref_value_line_in (Sub off name) (S (length w + (length name + off))) r4); eauto.
      * replace (S (length w + (length name + off))) with (off + (length name + (length w + 1))) by lia.
        rewrite <- skipn_add, <- Hl, Hs, <- skipn_add, skipn_app, skipn_all, Nat.sub_diag. cbn [skipn app].
        rewrite Hw, <- skipn_add, skipn_app, skipn_all, Nat.sub_diag. reflexivity.
      * eapply in_buf_weaken; [| |exact Hname]; lia.
    + intros H. apply Inv in H. subst x. exact I.
  - intros H. apply Inv in H. subst x. exact I.
Qed.
End ZC.


(* ---- chains of slices: each inside the buffer, in input order, without overlap ---- *)
Fixpoint chain (buf : list N) (lo : nat) (ss : list sl) (hi : nat) : Prop :=
  match ss with
  | [] => lo <= hi
  | s :: r => exists mid, in_buf buf lo mid s /\ chain buf mid r hi
  end.

Lemma in_buf_le buf lo hi s : in_buf buf lo hi s -> lo <= hi.
Proof. destruct s; cbn [in_buf]; lia. Qed.

Lemma chain_le buf ss : forall lo hi, chain buf lo ss hi -> lo <= hi.
Proof.
  induction ss as [|s r IH]; intros lo hi H; cbn [chain] in H; [exact H|].
  destruct H as [mid [Hs Hr]]. apply IH in Hr. apply in_buf_le in Hs. lia.
Qed.

Lemma chain_weaken buf ss : forall lo lo' hi hi', lo' <= lo -> hi <= hi' -> chain buf lo ss hi -> chain buf lo' ss hi'.
Proof.
  induction ss as [|s r IH]; intros lo lo' hi hi' H1 H2 H; cbn [chain] in *; [lia|].
  destruct H as [mid [Hs Hr]]. exists mid. split.
  - eapply in_buf_weaken; [exact H1| |exact Hs]. lia.
  - eapply IH; [| |exact Hr]; lia.
Qed.

Lemma chain_app buf a b : forall lo mid hi, chain buf lo a mid -> chain buf mid b hi -> chain buf lo (a ++ b) hi.
Proof.
  induction a as [|s r IH]; intros lo mid hi Ha Hb; cbn [chain app] in *.
  - eapply chain_weaken; [exact Ha| |exact Hb]. lia.
  - destruct Ha as [m [Hs Hr]]. exists m. split; [exact Hs|]. eapply IH; eauto.
Qed.

Definition hdr_slices (hs : list (sl * sl)) : list sl := flat_map (fun h => [fst h; snd h]) hs.

Lemma hdr_slices_app a b : hdr_slices (a ++ b) = hdr_slices a ++ hdr_slices b.
Proof. unfold hdr_slices. apply flat_map_app. Qed.

Section Blocks.
Variable buf : list N.
Variable hc : hcfg.

Lemma line_chain lo hi n v : line_in buf lo hi (LHeader n v) -> chain buf lo [n; v] hi.
Proof.
  cbn [line_in]. intros [mid (Hn & Hv & _)]. cbn [chain]. exists mid. split; [exact Hn|].
  exists hi. split; [exact Hv|]. lia.
Qed.

(* the header block: the kept headers form a chain from the block start to wherever the block got *)
Lemma ref_header_block_chain : forall f cap hs lo off l st hs',
  l = skipn off buf -> chain buf lo (hdr_slices hs) off ->
  ref_header_block hc f cap hs off l = (st, hs') ->
  exists hi, chain buf lo (hdr_slices hs') hi /\ hi <= off + length l /\
             (forall o, st = Complete o -> hi <= o).
Proof.
  induction f as [|f IH]; intros cap hs lo off l st hs' Hl Hc H; cbn [ref_header_block] in H.
  - injection H as <- <-. exists off. repeat split; [exact Hc|lia|discriminate].
  - pose proof (ref_header_line_adv hc (null hs) off l) as Hadv.
    pose proof (ref_header_line_in buf hc (null hs) off l) as Hin.
    destruct (ref_header_line hc (null hs) off l) as [x o r| |e].
    + destruct Hadv as [k (Hk0 & Hk & -> & ->)]. specialize (Hin x _ _ Hl eq_refl).
      assert (Hl' : skipn k l = skipn (k + off) buf) by (rewrite Hl, skipn_add, Nat.add_comm; reflexivity).
      destruct x as [| |n v].
      * injection H as <- <-. exists off. repeat split; [exact Hc|lia|]. intros o [= <-]. lia.
      * assert (Hc' : chain buf lo (hdr_slices hs) (k + off)) by (eapply chain_weaken; [| |exact Hc]; lia).
        destruct (IH _ _ _ _ _ _ _ Hl' Hc' H) as [hi (H1 & H2 & H3)]. exists hi. rewrite skipn_length in H2.
        repeat split; [exact H1|lia|exact H3].
      * destruct (Nat.ltb (length hs) cap).
        -- assert (Hc' : chain buf lo (hdr_slices (hs ++ [(n, v)])) (k + off)).
           { rewrite hdr_slices_app. eapply chain_app; [exact Hc|]. cbn [hdr_slices flat_map fst snd app].
             apply line_chain. exact Hin. }
           destruct (IH _ _ _ _ _ _ _ Hl' Hc' H) as [hi (H1 & H2 & H3)]. exists hi. rewrite skipn_length in H2.
           repeat split; [exact H1|lia|exact H3].
        -- injection H as <- <-. exists off. repeat split; [exact Hc|lia|discriminate].
    + injection H as <- <-. exists off. repeat split; [exact Hc|lia|discriminate].
    + injection H as <- <-. exists off. repeat split; [exact Hc|lia|discriminate].
Qed.
End Blocks.

(* ---- whole messages ---- *)
Definition olist {A} (o : option A) : list A := match o with Some x => [x] | None => [] end.

Definition req_slices (r : ref_req) : list sl :=
  olist (rs_method (rq_start r)) ++ olist (rs_path (rq_start r)) ++ hdr_slices (rq_headers r).
Definition resp_slices (r : ref_resp) : list sl :=
  olist (rs_reason (rp_start r)) ++ hdr_slices (rp_headers r).
Definition lim (buf : list N) (st : status) : nat := match st with Complete n => n | _ => length buf end.

Lemma skipn_skipn_buf (buf : list N) k off : skipn k (skipn off buf) = skipn (k + off) buf.
Proof. rewrite skipn_add, Nat.add_comm. reflexivity. Qed.

Theorem ref_request_chain cf cap buf :
  let r := ref_request cf cap buf in chain buf 0 (req_slices r) (lim buf (rq_status r)).
Proof.
  cbn zeta. unfold ref_request, ref_request_line, req_slices.
  set (ms := allow_multiple_spaces_in_request_line_delimiters cf).
  pose proof (ref_empty_lines_adv (length buf) buf 0 (le_n _)) as A1.
  destruct (ref_empty_lines 0 buf) as [u1 o1 l1| |e1]; cbn [rq_start rq_headers rq_status rs_method rs_path olist app hdr_slices flat_map lim chain]; try lia.
  cbn [advances0] in A1. destruct A1 as [k1 (Hk1 & -> & ->)]. rewrite ?Nat.add_0_r in *.
  pose proof (ref_method_adv k1 (skipn k1 buf)) as A2.
  pose proof (ref_method_in buf k1 (skipn k1 buf)) as I2.
  destruct (ref_method k1 (skipn k1 buf)) as [m o2 l2| |e2]; cbn [rq_start rq_headers rq_status rs_method rs_path olist app hdr_slices flat_map lim chain]; try lia.
  destruct A2 as [k2 (_ & Hk2 & -> & ->)]. rewrite skipn_length in Hk2.
  destruct (I2 m _ _ eq_refl eq_refl) as [Im _]. clear I2.
  rewrite skipn_skipn_buf.
  set (off2 := k2 + k1) in *.
  (* target *)
  pose proof (ref_spaces_adv ms off2 (skipn off2 buf)) as As.
  assert (T : forall x o3 l3, rbind (ref_spaces ms off2 (skipn off2 buf)) (fun _ o l => ref_target o l) = ROk x o3 l3 ->
              exists k3, off2 <= k3 /\ in_buf buf k3 o3 x /\ o3 <= length buf /\ l3 = skipn o3 buf).
  { intros x o3 l3 H. destruct (ref_spaces ms off2 (skipn off2 buf)) as [u o l| |e]; cbn [rbind] in H; try discriminate.
    destruct As as [k (Hk & -> & ->)]. rewrite skipn_length in Hk. rewrite skipn_skipn_buf in H.
    pose proof (ref_target_adv (k + off2) (skipn (k + off2) buf)) as At. rewrite H in At.
    destruct At as [k' (_ & Hk' & -> & ->)]. rewrite skipn_length in Hk'.
    destruct (ref_target_in buf (k + off2) _ x _ _ eq_refl H) as [Ix _].
    exists (k + off2). rewrite skipn_skipn_buf. repeat split; try lia. exact Ix. }
  destruct (rbind (ref_spaces ms off2 (skipn off2 buf)) _) as [pth o3 l3| |e3];
    cbn [rq_start rq_headers rq_status rs_method rs_path olist app hdr_slices flat_map lim chain].
  2:{ exists (length buf). split; [eapply in_buf_weaken; [| |exact Im]; unfold off2; lia|lia]. }
  2:{ exists (length buf). split; [eapply in_buf_weaken; [| |exact Im]; unfold off2; lia|lia]. }
  destruct (T pth o3 l3 eq_refl) as [k3 (Hk3 & Ip & Ho3 & ->)]. clear T.
  assert (Chain2 : forall hi, o3 <= hi -> hi <= length buf -> chain buf 0 [m; pth] hi).
  { intros hi H1 H2. cbn [chain]. exists k3. split; [eapply in_buf_weaken; [| |exact Im]; unfold off2 in *; lia|].
    exists hi. split; [eapply in_buf_weaken; [| |exact Ip]; lia|lia]. }
  (* version, newline *)
  assert (A4 : advances0 o3 (skipn o3 buf)
                 (rbind (ref_spaces ms o3 (skipn o3 buf)) (fun _ o l => ref_version o l))).
  { apply rbind_adv0; [apply ref_spaces_adv|]. intros a o r _. apply advances_weaken. apply ref_version_adv. }
  destruct (rbind (ref_spaces ms o3 (skipn o3 buf)) (fun _ o l => ref_version o l)) as [v o4 l4| |e4];
    cbn [rq_start rq_headers rq_status rs_method rs_path olist app hdr_slices flat_map lim];
    try (apply Chain2; lia).
  destruct A4 as [k4 (Hk4 & -> & ->)]. rewrite skipn_length in Hk4. rewrite skipn_skipn_buf.
  pose proof (ref_eol_adv NewLine (k4 + o3) (skipn (k4 + o3) buf)) as A5.
  destruct (ref_eol NewLine (k4 + o3) (skipn (k4 + o3) buf)) as [u5 o5 l5| |e5];
    cbn [rq_start rq_headers rq_status rs_method rs_path olist app hdr_slices flat_map lim];
    try (apply Chain2; lia).
  destruct A5 as [k5 (_ & Hk5 & -> & ->)]. rewrite skipn_length in Hk5. rewrite skipn_skipn_buf.
  (* headers *)
  destruct (ref_headers (request_hcfg cf) cap (k5 + (k4 + o3)) (skipn (k5 + (k4 + o3)) buf)) as [st hs] eqn:Eh.
  cbn [rq_start rq_headers rq_status rs_method rs_path olist app].
  unfold ref_headers in Eh.
  destruct (ref_header_block_chain buf (request_hcfg cf) _ cap [] (k5 + (k4 + o3)) (k5 + (k4 + o3)) _ st hs eq_refl
              ltac:(cbn [hdr_slices flat_map chain]; lia) Eh) as [hi (Hc & Hhi & Hcomp)].
  rewrite skipn_length in Hhi.
  change (m :: pth :: hdr_slices hs) with ([m; pth] ++ hdr_slices hs).
  eapply chain_app; [apply (Chain2 (k5 + (k4 + o3))); lia|].
  eapply chain_weaken; [| |exact Hc]; [lia|].
  destruct st as [o| | |]; cbn [lim]; try lia. apply (Hcomp o eq_refl).
Qed.

Lemma ref_after_code_in buf ms off l s o r :
  l = skipn off buf -> ref_after_code ms off l = ROk s o r -> in_buf buf off o s.
Proof.
  intros Hl. unfold ref_after_code. destruct l as [|b l']; [discriminate|].
  assert (Hl' : l' = skipn (S off) buf).
  { replace (S off) with (off + 1) by lia. rewrite <- skipn_add, <- Hl. reflexivity. }
  destruct (is 32 b).
  - pose proof (ref_spaces_adv ms (S off) l') as As.
    destruct (ref_spaces ms (S off) l') as [u o' l''| |e]; cbn [rbind]; try discriminate.
    destruct As as [k (Hk & -> & ->)]. intros H.
    pose proof (ref_reason_in buf (k + S off) (skipn k l') s o r) as Hr.
    rewrite Hl', skipn_skipn_buf in Hr, H. specialize (Hr eq_refl H).
    eapply in_buf_weaken; [| |exact Hr]; lia.
  - destruct (is 13 b || is 10 b); [|discriminate].
    pose proof (ref_eol_adv Status off (b :: l')) as A.
    destruct (ref_eol Status off (b :: l')) as [u o' r'| |e]; try discriminate.
    intros [= <- <- <-]. destruct A as [k (_ & _ & -> & _)]. cbn [in_buf]. lia.
Qed.

Theorem ref_response_chain cf cap buf :
  let r := ref_response cf cap buf in chain buf 0 (resp_slices r) (lim buf (rp_status r)).
Proof.
  cbn zeta. unfold ref_response, ref_status_line, resp_slices.
  set (ms := allow_multiple_spaces_in_response_status_delimiters cf).
  assert (A1 : advances0 0 buf (rbind (ref_empty_lines 0 buf) (fun _ o l => ref_version o l))).
  { apply rbind_adv0; [apply (ref_empty_lines_adv (length buf)); lia|].
    intros a o r _. apply advances_weaken. apply ref_version_adv. }
  destruct (rbind (ref_empty_lines 0 buf) _) as [v o1 l1| |e1];
    cbn [rp_start rp_headers rp_status rs_reason olist app hdr_slices flat_map lim chain]; try lia.
  cbn [advances0] in A1. destruct A1 as [k1 (Hk1 & -> & ->)]. rewrite ?Nat.add_0_r in *.
  assert (A2 : advances0 k1 (skipn k1 buf)
                 (rbind (rbind (ref_sp Version k1 (skipn k1 buf)) (fun _ o l => ref_spaces ms o l))
                        (fun _ o l => ref_code o l))).
  { apply rbind_adv0; [apply rbind_adv0; [apply advances_weaken; apply ref_sp_adv|intros; apply ref_spaces_adv]|].
    intros a o r _. apply advances_weaken. apply ref_code_adv. }
  destruct (rbind (rbind (ref_sp Version k1 (skipn k1 buf)) _) _) as [code o2 l2| |e2];
    cbn [rp_start rp_headers rp_status rs_reason olist app hdr_slices flat_map lim chain]; try lia.
  cbn [advances0] in A2. destruct A2 as [k2 (Hk2 & -> & ->)]. rewrite skipn_length in Hk2. rewrite skipn_skipn_buf.
  pose proof (ref_after_code_adv ms (k2 + k1) (skipn (k2 + k1) buf)) as A3.
  pose proof (ref_after_code_in buf ms (k2 + k1) (skipn (k2 + k1) buf)) as I3.
  destruct (ref_after_code ms (k2 + k1) (skipn (k2 + k1) buf)) as [rs o3 l3| |e3];
    cbn [rp_start rp_headers rp_status rs_reason olist app hdr_slices flat_map lim chain]; try lia.
  cbn [advances0] in A3. destruct A3 as [k3 (Hk3 & -> & ->)]. rewrite skipn_length in Hk3. rewrite skipn_skipn_buf.
  specialize (I3 rs _ _ eq_refl eq_refl).
  destruct (ref_headers (response_hcfg cf) cap (k3 + (k2 + k1)) (skipn (k3 + (k2 + k1)) buf)) as [st hs] eqn:Eh.
  cbn [rp_start rp_headers rp_status rs_reason olist app].
  unfold ref_headers in Eh.
  destruct (ref_header_block_chain buf (response_hcfg cf) _ cap [] (k3 + (k2 + k1)) (k3 + (k2 + k1)) _ st hs eq_refl
              ltac:(cbn [hdr_slices flat_map chain]; lia) Eh) as [hi (Hc & Hhi & Hcomp)].
  rewrite skipn_length in Hhi.
  change (rs :: hdr_slices hs) with ([rs] ++ hdr_slices hs).
  eapply chain_app.
  - cbn [chain]. exists (k3 + (k2 + k1)). split; [eapply in_buf_weaken; [| |exact I3]; lia|]. apply le_n.
  - eapply chain_weaken; [| |exact Hc]; [lia|].
    destruct st as [o| | |]; cbn [lim]; try lia. apply (Hcomp o eq_refl).
Qed.

Theorem ref_headers_chain hc cap buf :
  let r := ref_headers hc cap 0 buf in chain buf 0 (hdr_slices (snd r)) (lim buf (fst r)).
Proof.
  cbn zeta. destruct (ref_headers hc cap 0 buf) as [st hs] eqn:Eh. unfold ref_headers in Eh.
  destruct (ref_header_block_chain buf hc _ cap [] 0 0 buf st hs eq_refl
              ltac:(cbn [hdr_slices flat_map chain]; lia) Eh) as [hi (Hc & Hhi & Hcomp)].
  cbn [fst snd]. eapply chain_weaken; [| |exact Hc]; [lia|].
  destruct st as [o| | |]; cbn [lim]; try lia. apply (Hcomp o eq_refl).
Qed.
