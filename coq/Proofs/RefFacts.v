(* Proofs/RefFacts.v -- structural facts about the reference parsers: every successful stage
   consumes a non-empty prefix of its input and reports the matching offset. *)
From Coq Require Import List NArith ZArith Lia Bool ZifyBool ZifyN ZifyNat.
From HV Require Import Cursor Scan Model Api Spec.
From HV.Proofs Require Import Base.
Import ListNotations.

Definition advances {A} (off : nat) (l : list N) (r : rres A) : Prop :=
  match r with
  | ROk _ o r' => exists k, 0 < k /\ k <= length l /\ o = k + off /\ r' = skipn k l
  | _ => True
  end.

(* zero-length progress allowed (ref_spaces with the option off) *)
Definition advances0 {A} (off : nat) (l : list N) (r : rres A) : Prop :=
  match r with
  | ROk _ o r' => exists k, k <= length l /\ o = k + off /\ r' = skipn k l
  | _ => True
  end.

Lemma span_app p l : l = fst (span p l) ++ snd (span p l).
Proof.
  induction l as [|b r IH]; [reflexivity|]. cbn [span]. destruct (p b); [|reflexivity].
  destruct (span p r) as [a t]. cbn [fst snd] in *. cbn [app]. f_equal. exact IH.
Qed.
Lemma span_skipn p l a t : span p l = (a, t) -> t = skipn (length a) l /\ length a <= length l.
Proof.
  intros H. pose proof (span_app p l) as E. rewrite H in E. cbn [fst snd] in E. subst l.
  rewrite skipn_app, Nat.sub_diag, skipn_all, app_length. cbn [skipn app]. split; [reflexivity|lia].
Qed.

Lemma adv_intro {A} (a : A) off l k o r' :
  0 < k -> k <= length l -> o = k + off -> r' = skipn k l -> advances off l (ROk a o r').
Proof. intros. exists k. auto. Qed.

Lemma skipn_S_cons {A} k (b : A) r : skipn (S k) (b :: r) = skipn k r.
Proof. reflexivity. Qed.

(* lift a fact about the tail r of b :: r *)
Lemma advances_cons {A} off b r (x : rres A) :
  advances0 (S off) r x -> advances off (b :: r) x.
Proof.
  destruct x as [a o r'| |]; cbn [advances advances0]; auto.
  intros [k (Hk & -> & ->)]. exists (S k). cbn [length skipn]. repeat split; lia.
Qed.
Lemma advances_cons' {A} off b r (x : rres A) :
  advances (S off) r x -> advances off (b :: r) x.
Proof.
  destruct x as [a o r'| |]; cbn [advances]; auto.
  intros [k (H0 & Hk & -> & ->)]. exists (S k). cbn [length skipn]. repeat split; lia.
Qed.
Lemma advances_weaken {A} off l (x : rres A) : advances off l x -> advances0 off l x.
Proof.
  destruct x as [a o r'| |]; cbn [advances advances0]; auto.
  intros [k (H0 & Hk & -> & ->)]. exists k. auto.
Qed.

Section Facts.
Variable hc : hcfg.

Lemma ref_invalid_adv ign e off l : l <> [] -> advances off l (ref_invalid ign e off l).
Proof.
  intros Hne. unfold ref_invalid. destruct ign; cbn [negb]; [|exact I].
  destruct (span _ l) as [junk r] eqn:Es. apply span_skipn in Es as [-> Hj].
  destruct (skipn (length junk) l) as [|b r1] eqn:Er; [exact I|].
  assert (Hlen : length l = length junk + S (length r1)).
  { rewrite <- (firstn_skipn (length junk) l) at 1. rewrite app_length, firstn_length, Er. cbn [length]. lia. }
  destruct (is 0 b); [exact I|].
  destruct (is 10 b).
  - apply (adv_intro _ _ _ (S (length junk))); try lia.
    replace (S (length junk)) with (length junk + 1) by lia.
    rewrite <- skipn_add, Er. reflexivity.
  - destruct r1 as [|b2 r2]; [exact I|]. destruct (is 10 b2); [|exact I].
    cbn [length] in Hlen.
    apply (adv_intro _ _ _ (2 + length junk)); try lia.
    replace (2 + length junk) with (length junk + 2) by lia.
    rewrite <- skipn_add, Er. reflexivity.
Qed.

Lemma rbind_adv {A B} off l (x : rres A) (g : A -> B) :
  advances off l x -> advances off l (rbind x (fun a o r => ROk (g a) o r)).
Proof. destruct x; cbn [rbind advances]; auto. Qed.

Lemma advances_cons2 {A} off b b2 r (x : rres A) :
  advances0 (2 + off) r x -> advances off (b :: b2 :: r) x.
Proof.
  destruct x as [a o r'| |]; cbn [advances advances0]; auto.
  intros [k (Hk & -> & ->)]. exists (S (S k)). cbn [length skipn]. repeat split; lia.
Qed.

Lemma ref_value_lines_adv : forall n l voff racc off, length l <= n ->
  advances0 off l (ref_value_lines hc voff racc off l) /\
  (l <> [] -> advances off l (ref_value_lines hc voff racc off l)).
Proof.
  induction n as [|n IH]; intros l voff racc off Hn.
  { destruct l; [split; [exact I|congruence]|cbn [length] in Hn; lia]. }
  destruct l as [|b r]; [split; [exact I|congruence]|]. cbn [length] in Hn.
  assert (H : advances off (b :: r) (ref_value_lines hc voff racc off (b :: r))).
  { cbn [ref_value_lines].
    destruct (value_char b).
    { apply advances_cons. apply IH. lia. }
    destruct (is 13 b).
    { destruct r as [|b2 r2]; [exact I|]. destruct (is 10 b2); cbn [negb]; [|exact I].
      cbn [length] in Hn.
      destruct (allow_obsolete_multiline_headers hc).
      - destruct r2 as [|b3 r3]; [exact I|]. destruct (ws b3).
        + apply advances_cons2. apply IH. cbn [length] in *. lia.
        + apply (adv_intro _ _ _ 2); cbn [length skipn]; lia || reflexivity.
      - apply (adv_intro _ _ _ 2); cbn [length skipn]; lia || reflexivity. }
    destruct (is 10 b).
    { destruct (allow_obsolete_multiline_headers hc).
      - destruct r as [|b3 r3]; [exact I|]. destruct (ws b3).
        + apply advances_cons. apply IH. lia.
        + apply (adv_intro _ _ _ 1); cbn [length skipn]; lia || reflexivity.
      - apply (adv_intro _ _ _ 1); cbn [length skipn]; lia || reflexivity. }
    apply rbind_adv. apply ref_invalid_adv. discriminate. }
  split; [apply advances_weaken; exact H|intros _; exact H].
Qed.

Lemma ref_value_start_adv : forall n l off, length l <= n ->
  advances0 off l (ref_value_start hc off l) /\
  (l <> [] -> advances off l (ref_value_start hc off l)).
Proof.
  induction n as [|n IH]; intros l off Hn.
  { destruct l; [split; [exact I|congruence]|cbn [length] in Hn; lia]. }
  destruct l as [|b r]; [split; [exact I|congruence]|]. cbn [length] in Hn.
  assert (H : advances off (b :: r) (ref_value_start hc off (b :: r))).
  { cbn [ref_value_start].
    destruct (ws b).
    { apply advances_cons. apply IH. lia. }
    destruct (value_char b).
    { apply (ref_value_lines_adv (S (length r))); [cbn [length]; lia|discriminate]. }
    destruct (is 13 b).
    { destruct r as [|b2 r2]; [exact I|]. destruct (is 10 b2); cbn [negb]; [|exact I].
      cbn [length] in Hn.
      destruct (allow_obsolete_multiline_headers hc).
      - destruct r2 as [|b3 r3]; [exact I|]. destruct (ws b3).
        + apply advances_cons2. apply IH. cbn [length] in *. lia.
        + apply (adv_intro _ _ _ 2); cbn [length skipn]; lia || reflexivity.
      - apply (adv_intro _ _ _ 2); cbn [length skipn]; lia || reflexivity. }
    destruct (is 10 b).
    { destruct (allow_obsolete_multiline_headers hc).
      - destruct r as [|b3 r3]; [exact I|]. destruct (ws b3).
        + apply advances_cons. apply IH. lia.
        + apply (adv_intro _ _ _ 1); cbn [length skipn]; lia || reflexivity.
      - apply (adv_intro _ _ _ 1); cbn [length skipn]; lia || reflexivity. }
    apply rbind_adv. apply ref_invalid_adv. discriminate. }
  split; [apply advances_weaken; exact H|intros _; exact H].
Qed.

(* shifting a result obtained on a suffix (skipn j l at offset j + off) back to l *)
Lemma advances0_shift {A} off l j (x : rres A) :
  j <= length l -> advances0 (j + off) (skipn j l) x ->
  match x with
  | ROk _ o r' => exists k, j <= k /\ k <= length l /\ o = k + off /\ r' = skipn k l
  | _ => True
  end.
Proof.
  intros Hj. destruct x as [a o r'| |]; cbn [advances0]; auto.
  intros [k (Hk & -> & ->)]. rewrite skipn_length in Hk. exists (j + k).
  rewrite skipn_add. repeat split; lia.
Qed.

Lemma ref_value_adv name off l : advances0 off l (ref_value hc name off l).
Proof.
  unfold ref_value.
  destruct (ref_value_start_adv (length l) l off (le_n _)) as [H _].
  destruct (ref_value_start hc off l); cbn [rbind advances0] in *; auto.
Qed.

Lemma ref_header_line_adv first off l :
  advances off l (ref_header_line hc first off l).
Proof.
  unfold ref_header_line. destruct l as [|b r]; [exact I|].
  destruct (is 13 b).
  { destruct r as [|b2 r2]; [exact I|]. destruct (is 10 b2); [|exact I].
    apply (adv_intro _ _ _ 2); cbn [length skipn]; lia || reflexivity. }
  destruct (is 10 b).
  { apply (adv_intro _ _ _ 1); cbn [length skipn]; lia || reflexivity. }
  destruct (tchar b) eqn:Et; cbn [negb].
  2:{ destruct (allow_space_before_first_header_name hc && first && ws b) eqn:Esp.
      - apply andb_prop in Esp as [_ Ews].
        destruct (span ws (b :: r)) as [w r'] eqn:Es.
        pose proof (span_skipn _ _ _ _ Es) as [-> Hw].
        cbn [span] in Es. rewrite Ews in Es. destruct (span ws r) as [w' r'']. injection Es as <- _.
        apply (adv_intro _ _ _ (length (b :: w'))); cbn [length] in *; lia || reflexivity.
      - apply ref_invalid_adv. discriminate. }
  destruct (span tchar (b :: r)) as [name r1] eqn:Es.
  pose proof (span_skipn _ _ _ _ Es) as [-> Hn].
  assert (Hn0 : 0 < length name).
  { cbn [span] in Es. rewrite Et in Es. destruct (span tchar r). injection Es as <- _. cbn [length]. lia. }
  set (l := b :: r) in *.
  destruct (skipn (length name) l) as [|c r2] eqn:E1; [exact I|].
  assert (Hl1 : length l = length name + S (length r2)).
  { rewrite <- (firstn_skipn (length name) l) at 1. rewrite app_length, firstn_length, E1. cbn [length]. lia. }
  assert (Hr2 : r2 = skipn (S (length name)) l).
  { replace (S (length name)) with (length name + 1) by lia. rewrite <- skipn_add, E1. reflexivity. }
  (* anything obtained on r2 at offset S (length name + off) *)
  assert (OnR2 : forall x : rres rline, advances0 (S (length name) + off) r2 x -> advances off l x).
  { intros x Hx. rewrite Hr2 in Hx. apply advances0_shift in Hx; [|lia].
    destruct x as [a o r'| |]; cbn [advances]; auto.
    destruct Hx as [k (H1 & H2 & -> & ->)]. exists k. repeat split; lia. }
  destruct (is 58 c).
  { apply OnR2. replace (S (length name + off)) with (S (length name) + off) by lia. apply ref_value_adv. }
  destruct (allow_spaces_after_header_name hc && ws c) eqn:Esa.
  - destruct (span ws (c :: r2)) as [w r3] eqn:Ew.
    pose proof (span_skipn _ _ _ _ Ew) as [-> Hw].
    destruct (skipn (length w) (c :: r2)) as [|c' r4] eqn:E3; [exact I|].
    assert (Hl3 : S (length r2) = length w + S (length r4)).
    { change (S (length r2)) with (length (c :: r2)).
      rewrite <- (firstn_skipn (length w) (c :: r2)) at 1. rewrite app_length, firstn_length, E3. cbn [length] in *. lia. }
    assert (E3' : skipn (length name + length w) l = c' :: r4).
    { rewrite <- skipn_add, E1. exact E3. }
    assert (Hr4 : r4 = skipn (S (length name + length w)) l).
    { replace (S (length name + length w)) with ((length name + length w) + 1) by lia.
      rewrite <- skipn_add, E3'. reflexivity. }
    destruct (is 58 c').
    + pose proof (ref_value_adv (Sub off name) (S (length w + (length name + off))) r4) as Hx.
      rewrite Hr4 in Hx.
      replace (S (length w + (length name + off))) with (S (length name + length w) + off) in Hx by lia.
      apply advances0_shift in Hx; [|lia].
      replace (S (length w + (length name + off))) with (S (length name + length w) + off) by lia.
      rewrite <- Hr4 in *.
      destruct (ref_value hc (Sub off name) (S (length name + length w) + off) r4) as [a o r'| |]; cbn [advances]; auto.
      destruct Hx as [k (H1 & H2 & -> & ->)]. exists k. repeat split; lia.
    + pose proof (ref_invalid_adv (ignore_invalid_headers hc) HeaderName (length w + (length name + off)) (c' :: r4) ltac:(discriminate)) as Hx.
      rewrite <- E3' in Hx. apply advances_weaken in Hx.
      replace (length w + (length name + off)) with ((length name + length w) + off) in Hx by lia.
      apply advances0_shift in Hx; [|lia].
      replace (length w + (length name + off)) with ((length name + length w) + off) by lia.
      rewrite E3' in *.
      destruct (ref_invalid _ _ _ _) as [a o r'| |]; cbn [advances]; auto.
      destruct Hx as [k (H1 & H2 & -> & ->)]. exists k. repeat split; lia.
  - pose proof (ref_invalid_adv (ignore_invalid_headers hc) HeaderName (length name + off) (c :: r2) ltac:(discriminate)) as Hx.
    rewrite <- E1 in Hx. apply advances_weaken in Hx.
    apply advances0_shift in Hx; [|lia]. rewrite E1 in *.
    destruct (ref_invalid _ _ _ _) as [a o r'| |]; cbn [advances]; auto.
    destruct Hx as [k (H1 & H2 & -> & ->)]. exists k. repeat split; lia.
Qed.
End Facts.

(* ---- start-line stages ---- *)
Lemma advances0_refl {A} (a : A) off l : advances0 off l (ROk a off l).
Proof. exists 0. cbn [skipn Nat.add]. repeat split; lia. Qed.

Lemma advances0_cons {A} off b r (x : rres A) :
  advances0 (S off) r x -> advances0 off (b :: r) x.
Proof. intros H. apply advances_weaken. apply advances_cons. exact H. Qed.
Lemma advances0_cons2 {A} off b b2 r (x : rres A) :
  advances0 (2 + off) r x -> advances0 off (b :: b2 :: r) x.
Proof. intros H. apply advances_weaken. apply advances_cons2. exact H. Qed.

Lemma ref_empty_lines_adv : forall n l off, length l <= n -> advances0 off l (ref_empty_lines off l).
Proof.
  induction n as [|n IH]; intros l off Hn.
  { destruct l; [exact I|cbn [length] in Hn; lia]. }
  destruct l as [|b r]; [exact I|]. cbn [length] in Hn. cbn [ref_empty_lines].
  destruct (is 13 b).
  - destruct r as [|b2 r2]; [exact I|]. destruct (is 10 b2); [|exact I].
    apply advances0_cons2. apply IH. cbn [length] in Hn. lia.
  - destruct (is 10 b).
    + apply advances0_cons. apply IH. lia.
    + apply advances0_refl.
Qed.

Lemma span_adv0 {A} p l off (a : A) :
  advances0 off l (ROk a (length (fst (span p l)) + off) (snd (span p l))).
Proof.
  destruct (span p l) as [x t] eqn:Es. apply span_skipn in Es as [-> Hx]. cbn [fst snd].
  exists (length x). auto.
Qed.

Lemma ref_spaces_adv on off l : advances0 off l (ref_spaces on off l).
Proof.
  unfold ref_spaces. destruct on; [|apply advances0_refl].
  pose proof (span_adv0 (is 32) l off tt) as H. destruct (span (is 32) l) as [s r]. cbn [fst snd] in H.
  destruct r; [exact I|exact H].
Qed.

(* a span followed by one more byte *)
Lemma span_then_one {A} p l off (a : A) x t b r' :
  span p l = (x, t) -> t = b :: r' -> advances off l (ROk a (S (length x) + off) r').
Proof.
  intros Es Et. apply span_skipn in Es as [Es Hx]. rewrite Et in Es. clear Et.
  assert (Hlen : length l = length x + S (length r')).
  { rewrite <- (firstn_skipn (length x) l) at 1. rewrite app_length, firstn_length, <- Es. cbn [length]. lia. }
  exists (S (length x)). repeat split; try lia.
  replace (S (length x)) with (length x + 1) by lia. rewrite <- skipn_add, <- Es. reflexivity.
Qed.

Lemma ref_method_adv off l : advances off l (ref_method off l).
Proof.
  unfold ref_method. destruct (span tchar l) as [m r] eqn:Es.
  destruct r as [|b r']; [exact I|]. destruct (null m); [exact I|]. destruct (is 32 b); [|exact I].
  eapply span_then_one; eauto.
Qed.
Lemma ref_target_adv off l : advances off l (ref_target off l).
Proof.
  unfold ref_target. destruct (span uri_char l) as [m r] eqn:Es.
  destruct r as [|b r']; [exact I|]. destruct (negb (is 32 b)); [exact I|].
  destruct (null m); [exact I|]. destruct (negb (utf8_valid m)); [exact I|].
  eapply span_then_one; eauto.
Qed.
Lemma ref_version_adv off l : advances off l (ref_version off l).
Proof.
  unfold ref_version. rewrite take_spec. destruct (Nat.leb_spec 8 (length l)).
  - destruct (list_eqb _ _); [exists 8; repeat split; lia|].
    destruct (list_eqb _ _); [exists 8; repeat split; lia|exact I].
  - destruct (is_prefix l HTTP1dot); exact I.
Qed.
Lemma ref_eol_adv e off l : advances off l (ref_eol e off l).
Proof.
  unfold ref_eol. destruct l as [|b r]; [exact I|].
  destruct (is 13 b).
  - destruct r as [|b2 r2]; [exact I|]. destruct (is 10 b2); [|exact I].
    exists 2. cbn [length skipn]. repeat split; lia.
  - destruct (is 10 b); [|exact I]. exists 1. cbn [length skipn]. repeat split; lia.
Qed.
Lemma ref_sp_adv e off l : advances off l (ref_sp e off l).
Proof.
  unfold ref_sp. destruct l as [|b r]; [exact I|]. destruct (is 32 b); [|exact I].
  exists 1. cbn [length skipn]. repeat split; lia.
Qed.
Lemma ref_code_adv off l : advances off l (ref_code off l).
Proof.
  unfold ref_code. destruct l as [|a r1]; [exact I|]. destruct (negb (digit a)); [exact I|].
  destruct r1 as [|b r2]; [exact I|]. destruct (negb (digit b)); [exact I|].
  destruct r2 as [|c r3]; [exact I|]. destruct (negb (digit c)); [exact I|].
  exists 3. cbn [length skipn]. repeat split; lia.
Qed.

(* composition *)
Lemma rbind_adv0 {A B} off l (x : rres A) (g : A -> nat -> list N -> rres B) :
  advances0 off l x ->
  (forall a o r, x = ROk a o r -> advances0 o r (g a o r)) ->
  advances0 off l (rbind x g).
Proof.
  destruct x as [a o r| |]; cbn [rbind]; auto.
  intros [k (Hk & -> & ->)] Hg. specialize (Hg a _ _ eq_refl).
  destruct (g a (k + off) (skipn k l)) as [b o' r'| |]; cbn [advances0] in *; auto.
  destruct Hg as [k' (Hk' & -> & ->)]. rewrite skipn_length in Hk'. exists (k + k').
  rewrite skipn_add. repeat split; lia.
Qed.

Lemma ref_reason_adv off l : advances off l (ref_reason off l).
Proof.
  unfold ref_reason. destruct (span reason_char l) as [t r] eqn:Es.
  pose proof (ref_eol_adv Status (length t + off) r) as H.
  apply span_skipn in Es as [-> Ht].
  destruct (ref_eol Status (length t + off) (skipn (length t) l)) as [u o r'| |]; cbn [advances] in *; auto.
  destruct H as [k (Hk0 & Hk & -> & ->)]. rewrite skipn_length in Hk. exists (length t + k).
  rewrite skipn_add. repeat split; lia.
Qed.

Lemma ref_after_code_adv ms off l : advances0 off l (ref_after_code ms off l).
Proof.
  unfold ref_after_code. destruct l as [|b r]; [exact I|].
  destruct (is 32 b).
  - apply advances0_cons. apply rbind_adv0; [apply ref_spaces_adv|].
    intros a o r' _. apply advances_weaken. apply ref_reason_adv.
  - destruct (is 13 b || is 10 b); [|exact I].
    pose proof (ref_eol_adv Status off (b :: r)) as H. apply advances_weaken in H.
    destruct (ref_eol Status off (b :: r)); cbn [advances0] in *; auto.
Qed.
