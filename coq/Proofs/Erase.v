(* Erase.v -- C20: the cost model (the textual copies Generated/C*.v compiled against CursorC.v, sequenced by
   CostTop.v) computes, once its two work counters are forgotten, exactly what the model (Scan.v, Model.v,
   Backends.v) computes.  So the linear-work theorems of Proofs/Work.v are statements about the executions of
   the model -- and, through source_tie, of the translated source -- not about a look-alike. *)
From Coq Require Import List NArith Bool Lia Arith.
From HV Require Cursor Scan Model Api Backends.
From HV Require CursorC CostTop.
From HV.Generated Require CScan CModel CBackends CSse42 CAvx2 CNeon.
From HV.Generated Require Import Classes Swar Sse42 Avx2 Neon Cfg.
Import ListNotations.

Module P := HV.Cursor.
Module C := HV.CursorC.

(* forgetting the counters *)
Definition er (c : C.cur) : P.cur := P.mkcur (C.pre c) (C.tokrev c) (C.rest c).
Definition ero {A} (o : C.out A) : P.out A :=
  match o with
  | C.Done a c => P.Done a (er c)
  | C.Part _ _ => P.Part
  | C.Fail e _ _ => P.Fail e
  | C.Fault f => P.Fault f
  end.
(* mc erases to m, through a map of result values *)
Definition ersf {A A'} (g : A -> A') (mc : C.P A) (m : P.P A') : Prop :=
  forall c, match mc c, m (er c) with
            | C.Done a c', P.Done a' c'' => g a = a' /\ er c' = c''
            | C.Part _ _, P.Part => True
            | C.Fail e _ _, P.Fail e' => e = e'
            | C.Fault f, P.Fault f' => f = f'
            | _, _ => False
            end.
Definition ers {A} (mc : C.P A) (m : P.P A) : Prop := ersf (fun a => a) mc m.

Lemma ersf_bind {A A' B B'} (g : A -> A') (h : B -> B') mc m kc k :
  ersf g mc m -> (forall a, ersf h (kc a) (k (g a))) -> ersf h (C.bind mc kc) (P.bind m k).
Proof.
  intros Hm Hk c. unfold C.bind, P.bind. specialize (Hm c).
  destruct (mc c) as [a c1|tk tr|e tk tr|f], (m (er c)) as [a' c1'| |e'|f']; try contradiction; auto.
  destruct Hm as [<- <-]. exact (Hk a c1).
Qed.
Lemma ers_bind {A B} (mc : C.P A) (m : P.P A) (kc : A -> C.P B) (k : A -> P.P B) :
  ers mc m -> (forall a, ers (kc a) (k a)) -> ers (C.bind mc kc) (P.bind m k).
Proof. intros. eapply (ersf_bind (fun a => a) (fun b => b)); eauto. Qed.

Lemma ersf_ret {A A'} (g : A -> A') a : ersf g (C.ret a) (P.ret (g a)).
Proof. intros c. cbn. auto. Qed.
Lemma ers_ret {A} (a : A) : ers (C.ret a) (P.ret a).
Proof. intros c. cbn. auto. Qed.
Lemma ersf_fail {A A'} (g : A -> A') e : ersf g (C.fail e) (P.fail e).
Proof. intros c. reflexivity. Qed.
Lemma ersf_part {A A'} (g : A -> A') : ersf g C.part P.part.
Proof. intros c. exact Logic.I. Qed.
Lemma ersf_fault {A A'} (g : A -> A') f : ersf g (C.fault_ f) (P.fault_ f).
Proof. intros c. reflexivity. Qed.
Lemma ers_tick n : ers (C.tick n) (P.ret tt).
Proof. intros [p t r tk tr]. cbn. auto. Qed.
Lemma ers_peek : ers C.peek P.peek.
Proof. intros [p t r tk tr]. cbn. auto. Qed.
Lemma ers_pos : ers C.pos P.pos.
Proof. intros [p t r tk tr]. cbn. auto. Qed.
Lemma ers_remaining : ers C.remaining P.remaining.
Proof. intros [p t r tk tr]. cbn. auto. Qed.
Lemma ers_next : ers C.next P.next.
Proof. intros [p t r tk tr]. unfold C.next, P.next. cbn. destruct r; cbn; auto. Qed.
Lemma ers_peek_n n : ers (C.peek_n n) (P.peek_n n).
Proof. intros [p t r tk tr]. cbn. auto. Qed.
Lemma ers_peek_ahead n : ers (C.peek_ahead n) (P.peek_ahead n).
Proof. intros [p t r tk tr]. unfold C.peek_ahead, P.peek_ahead. cbn. destruct (P.drop n r); cbn; auto. Qed.
Lemma ers_advance n : ers (C.advance n) (P.advance n).
Proof. intros [p t r tk tr]. unfold C.advance, P.advance. cbn. destruct (P.shift n t r) as [[a b]|]; cbn; auto. Qed.
Lemma ers_bump : ers C.bump P.bump.
Proof. apply ers_advance. Qed.
Lemma ers_slice : ers C.slice P.slice.
Proof. intros [p t r tk tr]. cbn. auto. Qed.
Lemma ers_slice_skip k : ers (C.slice_skip k) (P.slice_skip k).
Proof. intros [p t r tk tr]. unfold C.slice_skip, P.slice_skip. cbn. destruct (P.drop k t); cbn; auto. Qed.
Lemma ers_expect p e : ers (C.expect p e) (P.expect p e).
Proof.
  unfold C.expect, P.expect. apply ers_bind; [apply ers_next|]. intros b.
  destruct (p b); [apply ers_ret|apply ersf_fail].
Qed.

Ltac ers_step :=
  first [ apply ers_ret | apply ersf_ret | apply ersf_fail | apply ersf_part | apply ersf_fault | apply ers_tick
        | apply ers_peek | apply ers_pos | apply ers_remaining | apply ers_next | apply ers_peek_n
        | apply ers_peek_ahead | apply ers_advance | apply ers_bump | apply ers_slice | apply ers_slice_skip
        | apply ers_expect | assumption
        | apply ers_bind; [|intros ?]
        | match goal with |- ersf _ (if ?b then _ else _) (if ?b then _ else _) => destruct b end
        | match goal with |- ers (if ?b then _ else _) (if ?b then _ else _) => destruct b end
        | match goal with |- ersf _ (match ?x with _ => _ end) (match ?x with _ => _ end) => destruct x end
        | match goal with |- ers (match ?x with _ => _ end) (match ?x with _ => _ end) => destruct x end ].
Ltac ers_auto := repeat ers_step.

Lemma ers_space e : ers (C.space e) (P.space e).
Proof. unfold C.space, P.space. ers_auto. Qed.
Lemma ers_newline : ers C.newline P.newline.
Proof. unfold C.newline, P.newline. ers_auto. Qed.

(* ---------- the loop shells ---------- *)
Module CS := HV.Generated.CScan.
Module S := HV.Scan.

Lemma ers_swar_loop f W kernel cls : ers (CS.swar_loop f W kernel cls) (S.swar_loop f W kernel cls).
Proof. induction f as [|f IH]; cbn [CS.swar_loop S.swar_loop]; ers_auto. Qed.

Lemma first_bad_eq : CS.first_bad = S.first_bad.
Proof. reflexivity. Qed.

Lemma ers_swar_name_loop f W cls : ers (CS.swar_name_loop f W cls) (S.swar_name_loop f W cls).
Proof.
  induction f as [|f IH]; cbn [CS.swar_name_loop S.swar_name_loop]; change CS.first_bad with S.first_bad; ers_auto.
  intros [p t r tk tr]. exact (ers_advance (S.first_bad cls r) (C.mkcur p t r tk tr)).
Qed.

Lemma ers_simd_loop f G K R kernel fbc fb : ers fbc fb ->
  ers (CS.simd_loop f G K R kernel fbc) (S.simd_loop f G K R kernel fb).
Proof. intros Hf. induction f as [|f IH]; cbn [CS.simd_loop S.simd_loop]; ers_auto. Qed.

(* ---------- Model.v ---------- *)
Module CM := HV.Generated.CModel.
Module M := HV.Model.

(* the duplicated pure definitions are convertible *)
Lemma utf8_valid_eq : CM.utf8_valid = M.utf8_valid. Proof. reflexivity. Qed.
Lemma list_eqb_eq : CM.list_eqb = M.list_eqb. Proof. reflexivity. Qed.
Lemma trim_value_eq : CM.trim_value = M.trim_value. Proof. reflexivity. Qed.

Definition env_ers (CE : CS.env) (E : S.env) : Prop :=
  CS.c_method CE = S.c_method E /\ CS.c_uri CE = S.c_uri E /\ CS.c_name CE = S.c_name E /\
  CS.c_value CE = S.c_value E /\
  (forall f, ers (CS.s_uri CE f) (S.s_uri E f)) /\ (forall f, ers (CS.s_value CE f) (S.s_value E f)) /\
  (forall f, ers (CS.s_name CE f) (S.s_name E f)).

Definition hc_er (h : CM.hcfg) : M.hcfg :=
  M.mkhcfg (CM.allow_spaces_after_header_name h) (CM.allow_obsolete_multiline_headers h)
           (CM.allow_space_before_first_header_name h) (CM.ignore_invalid_headers h).
Definition vres_er (v : CM.vres) : M.vres := match v with CM.VDropped => M.VDropped | CM.VValue s => M.VValue s end.
Definition hstep_er (h : CM.hstep) : M.hstep :=
  match h with CM.HEnd => M.HEnd | CM.HContinue => M.HContinue | CM.HHeader n v => M.HHeader n v end.

Section WithEnv.
Variable CE : CS.env.
Variable E : S.env.
Hypothesis HE : env_ers CE E.
Variable fuel : nat.

Lemma ers_skip_empty_lines : ers (CM.skip_empty_lines fuel) (M.skip_empty_lines fuel).
Proof.
  unfold CM.skip_empty_lines, M.skip_empty_lines. generalize fuel. intros f.
  induction f as [|f IH]; cbn [CM.skip_empty_lines_f M.skip_empty_lines_f]; ers_auto.
Qed.
Lemma ers_skip_spaces : ers (CM.skip_spaces fuel) (M.skip_spaces fuel).
Proof.
  unfold CM.skip_spaces, M.skip_spaces. generalize fuel. intros f.
  induction f as [|f IH]; cbn [CM.skip_spaces_f M.skip_spaces_f]; ers_auto.
Qed.
Lemma ers_parse_version : ers CM.parse_version M.parse_version.
Proof.
  unfold CM.parse_version, M.parse_version. change CM.list_eqb with M.list_eqb.
  change CM.H10 with M.H10. change CM.H11 with M.H11. ers_auto.
Qed.
Lemma ers_parse_token_f f : ers (CM.parse_token_f CE f) (M.parse_token_f E f).
Proof.
  destruct HE as (Hm & _). induction f as [|f IH]; cbn [CM.parse_token_f M.parse_token_f]; rewrite ?Hm; ers_auto.
Qed.
Lemma ers_parse_token : ers (CM.parse_token CE fuel) (M.parse_token E fuel).
Proof.
  pose proof (ers_parse_token_f fuel). destruct HE as (Hm & _). unfold CM.parse_token, M.parse_token. rewrite Hm. ers_auto.
Qed.
Lemma ers_parse_method : ers (CM.parse_method CE fuel) (M.parse_method E fuel).
Proof.
  pose proof ers_parse_token. unfold CM.parse_method, M.parse_method. change CM.list_eqb with M.list_eqb.
  change CM.GET_ with M.GET_. change CM.POST with M.POST. ers_auto.
Qed.
Lemma ers_parse_uri : ers (CM.parse_uri CE fuel) (M.parse_uri E fuel).
Proof.
  destruct HE as (_ & _ & _ & _ & Hu & _). pose proof (Hu fuel).
  unfold CM.parse_uri, M.parse_uri. change CM.utf8_valid with M.utf8_valid. ers_auto.
Qed.
Lemma ers_parse_code : ers CM.parse_code M.parse_code.
Proof. unfold CM.parse_code, M.parse_code. change CM.is_digit with M.is_digit. ers_auto. Qed.
Lemma ers_parse_reason : ers (CM.parse_reason fuel) (M.parse_reason fuel).
Proof.
  unfold CM.parse_reason, M.parse_reason. generalize false, fuel. intros seen f. revert seen.
  induction f as [|f IH]; intros seen; cbn [CM.parse_reason_f M.parse_reason_f]; change CM.reason_byte with M.reason_byte; ers_auto.
  apply IH.
Qed.

Variable hc : CM.hcfg.

Lemma ers_skip_invalid_line f : forall b e, ers (CM.skip_invalid_line f b e) (M.skip_invalid_line f b e).
Proof. induction f as [|f IH]; intros b e; cbn [CM.skip_invalid_line M.skip_invalid_line]; ers_auto. apply IH. Qed.
Lemma ers_handle_invalid b e : ers (CM.handle_invalid fuel hc b e) (M.handle_invalid fuel (hc_er hc) b e).
Proof.
  pose proof (ers_skip_invalid_line fuel b e). unfold CM.handle_invalid, M.handle_invalid.
  change (M.ignore_invalid_headers (hc_er hc)) with (CM.ignore_invalid_headers hc). ers_auto.
Qed.
Lemma ers_skip_ws_peek f : ers (CM.skip_ws_peek f) (M.skip_ws_peek f).
Proof. induction f as [|f IH]; cbn [CM.skip_ws_peek M.skip_ws_peek]; ers_auto. Qed.
Lemma ers_after_name_ws f : forall b, ers (CM.after_name_ws f b) (M.after_name_ws f b).
Proof. induction f as [|f IH]; intros b; cbn [CM.after_name_ws M.after_name_ws]; ers_auto. apply IH. Qed.
Lemma ers_fold_check : ers (CM.fold_check hc) (M.fold_check (hc_er hc)).
Proof.
  unfold CM.fold_check, M.fold_check.
  change (M.allow_obsolete_multiline_headers (hc_er hc)) with (CM.allow_obsolete_multiline_headers hc). ers_auto.
Qed.

Ltac vstep :=
  first [ apply ersf_ret | apply ersf_fail | apply ersf_part | apply ersf_fault
        | match goal with |- ersf vres_er (C.bind _ _) (P.bind _ _) => eapply (ersf_bind (fun a => a) vres_er); [|intros ?] end
        | match goal with |- ersf _ (if ?b then _ else _) (if ?b then _ else _) => destruct b end
        | match goal with |- ers (C.bind _ _) (P.bind _ _) => apply ers_bind; [|intros ?] end
        | apply ers_next | apply ers_expect | apply ers_slice | apply ers_slice_skip | apply ers_ret | assumption ].

Lemma ers_value_lines f : ersf vres_er (CM.value_lines CE fuel hc f) (M.value_lines E fuel (hc_er hc) f).
Proof.
  destruct HE as (_ & _ & _ & _ & _ & Hv & _). pose proof (Hv fuel) as Hsv. pose proof ers_fold_check as Hfc.
  induction f as [|f IH]; cbn [CM.value_lines M.value_lines]; [apply ersf_fault|].
  eapply (ersf_bind (fun a => a) vres_er); [exact Hsv|intros _].
  eapply (ersf_bind (fun a => a) vres_er); [apply ers_next|intros b].
  destruct (P.is P.CR b).
  - eapply (ersf_bind (fun a => a) vres_er); [apply ers_expect|intros _].
    eapply (ersf_bind (fun a => a) vres_er); [exact Hfc|intros c]. destruct c; [exact IH|].
    eapply (ersf_bind (fun a => a) vres_er); [apply ers_slice_skip|intros v]. apply (ersf_ret vres_er (CM.VValue v)).
  - destruct (P.is P.LF b).
    + eapply (ersf_bind (fun a => a) vres_er); [exact Hfc|intros c]. destruct c; [exact IH|].
      eapply (ersf_bind (fun a => a) vres_er); [apply ers_slice_skip|intros v]. apply (ersf_ret vres_er (CM.VValue v)).
    + eapply (ersf_bind (fun a => a) vres_er); [apply ers_handle_invalid|intros _]. apply (ersf_ret vres_er CM.VDropped).
Qed.

Lemma ers_ws_after_colon f : ersf vres_er (CM.ws_after_colon CE fuel hc f) (M.ws_after_colon E fuel (hc_er hc) f).
Proof.
  destruct HE as (_ & _ & _ & Hcv & _). pose proof ers_fold_check as Hfc. pose proof (ers_value_lines fuel) as Hvl.
  assert (Emp : ersf vres_er (fun c0 : C.cur => C.Done (CM.VValue (P.Sub (C.pre c0) [])) (C.commit c0))
                             (fun c0 : P.cur => P.Done (M.VValue (P.Sub (P.pre c0) [])) (P.commit c0))).
  { intros [p t r tk tr]. cbn. auto. }
  induction f as [|f IH]; cbn [CM.ws_after_colon M.ws_after_colon]; [apply ersf_fault|].
  eapply (ersf_bind (fun a => a) vres_er); [apply ers_next|intros b].
  destruct (P.is_ws b).
  - eapply (ersf_bind (fun a => a) vres_er); [apply ers_slice|intros _]. exact IH.
  - rewrite Hcv. destruct (S.c_value E b); [exact Hvl|].
    destruct (P.is P.CR b).
    + eapply (ersf_bind (fun a => a) vres_er); [apply ers_expect|intros _].
      eapply (ersf_bind (fun a => a) vres_er); [exact Hfc|intros c]. destruct c; [exact IH|exact Emp].
    + destruct (P.is P.LF b).
      * eapply (ersf_bind (fun a => a) vres_er); [exact Hfc|intros c]. destruct c; [exact IH|exact Emp].
      * eapply (ersf_bind (fun a => a) vres_er); [apply ers_handle_invalid|intros _]. apply (ersf_ret vres_er CM.VDropped).
Qed.

Lemma ers_header_line first :
  ersf hstep_er (CM.header_line CE fuel hc first) (M.header_line E fuel (hc_er hc) first).
Proof.
  destruct HE as (_ & _ & Hcn & _ & _ & _ & Hn). pose proof (Hn fuel) as Hsn.
  unfold CM.header_line, M.header_line.
  change (M.allow_space_before_first_header_name (hc_er hc)) with (CM.allow_space_before_first_header_name hc).
  change (M.allow_spaces_after_header_name (hc_er hc)) with (CM.allow_spaces_after_header_name hc).
  eapply (ersf_bind (fun a => a) hstep_er); [apply ers_next|intros b].
  destruct (P.is P.CR b).
  { eapply (ersf_bind (fun a => a) hstep_er); [apply ers_expect|intros _]. apply (ersf_ret hstep_er CM.HEnd). }
  destruct (P.is P.LF b); [apply (ersf_ret hstep_er CM.HEnd)|].
  rewrite Hcn. destruct (S.c_name E b); cbn [negb].
  2: { destruct (CM.allow_space_before_first_header_name hc && first && P.is_ws b).
       - eapply (ersf_bind (fun a => a) hstep_er); [apply ers_skip_ws_peek|intros _].
         eapply (ersf_bind (fun a => a) hstep_er); [apply ers_slice|intros _]. apply (ersf_ret hstep_er CM.HContinue).
       - eapply (ersf_bind (fun a => a) hstep_er); [apply ers_handle_invalid|intros _]. apply (ersf_ret hstep_er CM.HContinue). }
  eapply (ersf_bind (fun a => a) hstep_er); [exact Hsn|intros _].
  eapply (ersf_bind (fun a => a) hstep_er); [apply ers_next|intros b1].
  eapply (ersf_bind (fun a => a) hstep_er); [apply ers_slice_skip|intros name].
  eapply (ersf_bind (fun a => a) hstep_er).
  { destruct (P.is P.COLON b1); [apply ers_ret|]. destruct (CM.allow_spaces_after_header_name hc); [apply ers_after_name_ws|apply ers_ret]. }
  intros colon. destruct colon as [bad|].
  - eapply (ersf_bind (fun a => a) hstep_er); [apply ers_handle_invalid|intros _]. apply (ersf_ret hstep_er CM.HContinue).
  - eapply (ersf_bind vres_er hstep_er); [apply ers_ws_after_colon|intros v].
    destruct v as [|v]; [apply (ersf_ret hstep_er CM.HContinue)|apply (ersf_ret hstep_er (CM.HHeader name v))].
Qed.

End WithEnv.

(* ---------- the concrete backends ---------- *)
Module CB := HV.Generated.CBackends.
Module B := HV.Backends.

Section Width.
Variable W : nat.

Lemma ers_swar_uri f : ers (CB.swar_uri W f) (B.swar_uri W f). Proof. apply ers_swar_loop. Qed.
Lemma ers_swar_value f : ers (CB.swar_value W f) (B.swar_value W f). Proof. apply ers_swar_loop. Qed.
Lemma ers_swar_name f : ers (CB.swar_name W f) (B.swar_name W f). Proof. apply ers_swar_name_loop. Qed.

Lemma env_swar_ers : env_ers (CB.env_swar W) (B.env_swar W).
Proof.
  unfold env_ers. cbn. repeat split; intros f; [apply ers_swar_uri|apply ers_swar_value|apply ers_swar_name].
Qed.
Lemma env_sse42_ers : env_ers (CB.env_sse42 W) (B.env_sse42 W).
Proof.
  unfold env_ers. cbn. repeat split; intros f; try apply ers_swar_name;
    [exact (ers_simd_loop f 16 _ 16 _ _ _ (ers_swar_uri f)) | exact (ers_simd_loop f 16 _ 16 _ _ _ (ers_swar_value f))].
Qed.
Lemma env_avx2_ers : env_ers (CB.env_avx2 W) (B.env_avx2 W).
Proof.
  unfold env_ers. cbn. repeat split; intros f; try apply ers_swar_name;
    [exact (ers_simd_loop f 32 _ 32 _ _ _ (ers_swar_uri f)) | exact (ers_simd_loop f 32 _ 32 _ _ _ (ers_swar_value f))].
Qed.
Lemma env_neon_ers : env_ers (CB.env_neon W) (B.env_neon W).
Proof.
  unfold env_ers. cbn. repeat split; intros f;
    [exact (ers_simd_loop f 16 _ 16 _ _ _ (ers_swar_uri f)) | exact (ers_simd_loop f 16 _ 16 _ _ _ (ers_swar_value f))
    | exact (ers_simd_loop f 16 _ 16 _ _ _ (ers_swar_name f))].
Qed.
Lemma env_runtime_ers id : env_ers (CB.env_runtime W id) (B.env_runtime W id).
Proof.
  unfold CB.env_runtime, B.env_runtime. destruct (N.eqb id RT_AVX2); [apply env_avx2_ers|].
  destruct (N.eqb id RT_SSE42); [apply env_sse42_ers|apply env_swar_ers].
Qed.
End Width.

Definition be_er (b : CB.backend) : B.backend :=
  match b with CB.BSwar => B.BSwar | CB.BSse42 => B.BSse42 | CB.BAvx2 => B.BAvx2 | CB.BNeon => B.BNeon
             | CB.BRuntime id => B.BRuntime id end.
Theorem env_of_ers : forall W b, env_ers (CB.env_of W b) (B.env_of W (be_er b)).
Proof.
  intros W [| | | |id]; cbn [CB.env_of B.env_of be_er];
    [apply env_swar_ers|apply env_sse42_ers|apply env_avx2_ers|apply env_neon_ers|apply env_runtime_ers].
Qed.

(* ---------- CostTop.v: the call sequences ---------- *)
Module CT := HV.CostTop.
Module A := HV.Api.

Lemma ers_tick_then {A} n (mc : C.P A) (m : P.P A) : ers mc m -> ers (C.bind (C.tick n) (fun _ => mc)) m.
Proof.
  intros H [p t r tk tr]. unfold C.bind, C.tick. cbn [C.pre C.tokrev C.rest C.ticks C.travel].
  exact (H (C.mkcur p t r (n + tk) tr)).
Qed.

Section Top.
Variable CE : CS.env.
Variable E : S.env.
Hypothesis HE : env_ers CE E.
Variable fuel : nat.

(* the same programs over the plain cursor: what CostTop.v computes once the counters are forgotten *)
Fixpoint headers_plain (f : nat) (hc : M.hcfg) (cap nh : nat) : P.P nat :=
  match f with
  | O => P.fault_ P.OutOfFuel
  | S f' =>
      P.bind (M.header_line E fuel hc (Nat.eqb nh 0)) (fun h =>
      match h with
      | M.HEnd => P.ret nh
      | M.HContinue => headers_plain f' hc cap nh
      | M.HHeader name value =>
          if Nat.ltb nh cap then headers_plain f' hc cap (S nh) else P.fail P.TooManyHeaders
      end)
  end.
Definition opt_spaces_plain (ms : bool) : P.P unit := if ms then M.skip_spaces fuel else P.ret tt.
Definition request_plain (ms : bool) (hc : M.hcfg) (cap : nat) : P.P nat :=
  P.bind (M.skip_empty_lines fuel) (fun _ => P.bind (M.parse_method E fuel) (fun _ =>
  P.bind (opt_spaces_plain ms) (fun _ => P.bind (M.parse_uri E fuel) (fun _ =>
  P.bind (opt_spaces_plain ms) (fun _ => P.bind M.parse_version (fun _ =>
  P.bind P.newline (fun _ => headers_plain fuel hc cap 0))))))).
Definition response_plain (ms : bool) (hc : M.hcfg) (cap : nat) : P.P nat :=
  P.bind (M.skip_empty_lines fuel) (fun _ => P.bind M.parse_version (fun _ =>
  P.bind (P.space P.Version) (fun _ => P.bind (opt_spaces_plain ms) (fun _ => P.bind M.parse_code (fun _ =>
  P.bind (A.after_code ms fuel) (fun _ => headers_plain fuel hc cap 0)))))).

Lemma ers_headers_prog f : forall chc cap nh,
  ers (CT.headers_prog CE fuel f chc cap nh) (headers_plain f (hc_er chc) cap nh).
Proof.
  induction f as [|f IH]; intros chc cap nh; cbn [CT.headers_prog headers_plain]; [apply ersf_fault|].
  eapply (ersf_bind hstep_er (fun a => a)); [apply ers_header_line; exact HE|intros h].
  destruct h as [| |name value]; cbn [hstep_er]; [apply ers_ret|apply IH|].
  destruct (Nat.ltb nh cap); [|apply ersf_fail]. apply ers_tick_then. apply IH.
Qed.

Lemma ers_opt_spaces ms : ers (CT.opt_spaces fuel ms) (opt_spaces_plain ms).
Proof. unfold CT.opt_spaces, opt_spaces_plain. destruct ms; [apply ers_skip_spaces|apply ers_ret]. Qed.

Lemma ers_request_prog ms chc cap :
  ers (CT.request_prog CE fuel ms chc cap) (request_plain ms (hc_er chc) cap).
Proof.
  unfold CT.request_prog, request_plain.
  apply ers_bind; [apply ers_skip_empty_lines|intros _]. apply ers_bind; [apply ers_parse_method; exact HE|intros _].
  apply ers_bind; [apply ers_opt_spaces|intros _]. apply ers_bind; [apply ers_parse_uri; exact HE|intros _].
  apply ers_bind; [apply ers_opt_spaces|intros _]. apply ers_bind; [apply ers_parse_version|intros _].
  apply ers_bind; [apply ers_newline|intros _]. apply ers_headers_prog.
Qed.

Lemma ers_after_code ms : ers (CT.after_code fuel ms) (A.after_code ms fuel).
Proof.
  unfold CT.after_code, A.after_code. apply ers_bind; [apply ers_next|intros b].
  destruct (P.is P.SP b).
  - apply ers_bind; [apply ers_opt_spaces|intros _]. apply ers_bind; [apply ers_slice|intros _]. apply ers_parse_reason.
  - destruct (P.is P.CR b).
    + apply ers_bind; [apply ers_expect|intros _]. apply ers_bind; [apply ers_slice|intros _]. apply ers_ret.
    + destruct (P.is P.LF b); [|apply ersf_fail]. apply ers_bind; [apply ers_slice|intros _]. apply ers_ret.
Qed.

Lemma ers_response_prog ms chc cap :
  ers (CT.response_prog CE fuel ms chc cap) (response_plain ms (hc_er chc) cap).
Proof.
  unfold CT.response_prog, response_plain.
  apply ers_bind; [apply ers_skip_empty_lines|intros _]. apply ers_bind; [apply ers_parse_version|intros _].
  apply ers_bind; [apply ers_space|intros _]. apply ers_bind; [apply ers_opt_spaces|intros _].
  apply ers_bind; [apply ers_parse_code|intros _]. apply ers_bind; [apply ers_after_code|intros _].
  apply ers_headers_prog.
Qed.
End Top.

(* ---------- the plain call sequences against Api.v: same outcome ---------- *)
Definition agree_st (o : P.out nat) (st : M.status) : Prop :=
  match o, st with
  | P.Done _ _, M.Complete _ => True
  | P.Part, M.Partial => True
  | P.Fail e, M.Error e' => e = e'
  | P.Fault x, M.Faulted x' => x = x'
  | _, _ => False
  end.

Lemma ws_some : forall (a : list M.slot) i s, i < length a -> exists a', M.write_slot i s a = Some a' /\ length a' = length a.
Proof.
  induction a as [|x a IH]; intros i s H; cbn [length] in H; [lia|].
  destruct i as [|i]; cbn [M.write_slot]; [eexists; split; reflexivity|].
  destruct (IH i s ltac:(lia)) as (a' & Ha & Hl). rewrite Ha. eexists; split; [reflexivity|cbn [length]; lia].
Qed.
Lemma ws_none : forall (a : list M.slot) i s, length a <= i -> M.write_slot i s a = None.
Proof.
  induction a as [|x a IH]; intros i s H; cbn [length] in H; [destruct i; reflexivity|].
  destruct i as [|i]; [lia|]. cbn [M.write_slot]. rewrite IH by lia. reflexivity.
Qed.

Section Agree.
Variable E : S.env.
Variable fuel : nat.

Lemma headers_plain_agree hc : forall f start nh arr c,
  agree_st (headers_plain E fuel f hc (length arr) nh c) (fst (fst (M.headers_loop E fuel hc f start nh arr c))).
Proof.
  induction f as [|f IH]; intros start nh arr c; cbn [headers_plain M.headers_loop]; [reflexivity|].
  unfold P.bind, M.stage. destruct (M.header_line E fuel hc (Nat.eqb nh 0) c) as [h c'| |e|x]; cbn [fst snd agree_st]; auto.
  destruct h as [| |name value]; cbn [fst snd agree_st]; [exact Logic.I|apply IH|].
  destruct (Nat.ltb_spec nh (length arr)) as [Hlt|Hge].
  - destruct (ws_some arr nh (M.SWritten name (M.trim_value value)) Hlt) as (arr' & Hw & Hl). rewrite Hw.
    rewrite <- Hl. apply IH.
  - rewrite ws_none by exact Hge. reflexivity.
Qed.

End Agree.

Ltac step1 :=
  match goal with
  | |- context [match ?m ?c with P.Done _ _ => _ | P.Part => _ | P.Fail _ => _ | P.Fault _ => _ end] =>
      destruct (m c) as [? ?| |?|?]; cbn [fst snd agree_st]; auto
  end.

Lemma request_plain_agree E cf buf rq arr :
  agree_st (request_plain E (S (length buf)) (A.allow_multiple_spaces_in_request_line_delimiters cf) (A.request_hcfg cf) (length arr)
                          (P.cur_new buf))
           (fst (fst (A.request_core E cf buf rq arr))).
Proof.
  unfold A.request_core, request_plain, opt_spaces_plain, M.stage, M.parse_headers_iter_uninit.
  set (fuel := S (length buf)). set (ms := A.allow_multiple_spaces_in_request_line_delimiters cf).
  unfold P.bind. step1. step1.
  destruct ms; unfold P.ret.
  - step1. step1. step1. step1. step1.
    match goal with |- context [M.headers_loop E fuel ?hc fuel ?st 0 arr ?c] =>
      pose proof (headers_plain_agree E fuel hc fuel st 0 arr c) as H;
      destruct (M.headers_loop E fuel hc fuel st 0 arr c) as [[st' nh'] arr'] end.
    cbn [fst] in H. destruct (headers_plain _ _ _ _ _ _ _), st'; cbn [fst snd agree_st] in *; auto.
  - step1. step1. step1.
    match goal with |- context [M.headers_loop E fuel ?hc fuel ?st 0 arr ?c] =>
      pose proof (headers_plain_agree E fuel hc fuel st 0 arr c) as H;
      destruct (M.headers_loop E fuel hc fuel st 0 arr c) as [[st' nh'] arr'] end.
    cbn [fst] in H. destruct (headers_plain _ _ _ _ _ _ _), st'; cbn [fst snd agree_st] in *; auto.
Qed.

Lemma response_plain_agree E cf buf rp arr :
  agree_st (response_plain E (S (length buf)) (A.allow_multiple_spaces_in_response_status_delimiters cf) (A.response_hcfg cf) (length arr)
                           (P.cur_new buf))
           (fst (fst (A.response_core E cf buf rp arr))).
Proof.
  unfold A.response_core, response_plain, opt_spaces_plain, M.stage, M.parse_headers_iter_uninit.
  set (fuel := S (length buf)). set (ms := A.allow_multiple_spaces_in_response_status_delimiters cf).
  unfold P.bind. step1. step1. step1.
  destruct ms; unfold P.ret.
  - step1. step1. step1.
    match goal with |- context [M.headers_loop E fuel ?hc fuel ?st 0 arr ?c] =>
      pose proof (headers_plain_agree E fuel hc fuel st 0 arr c) as H;
      destruct (M.headers_loop E fuel hc fuel st 0 arr c) as [[st' nh'] arr'] end.
    cbn [fst] in H. destruct (headers_plain _ _ _ _ _ _ _), st'; cbn [fst snd agree_st] in *; auto.
  - step1. step1.
    match goal with |- context [M.headers_loop E fuel ?hc fuel ?st 0 arr ?c] =>
      pose proof (headers_plain_agree E fuel hc fuel st 0 arr c) as H;
      destruct (M.headers_loop E fuel hc fuel st 0 arr c) as [[st' nh'] arr'] end.
    cbn [fst] in H. destruct (headers_plain _ _ _ _ _ _ _), st'; cbn [fst snd agree_st] in *; auto.
Qed.

(* parse_headers: the header-block call sequence *)
Lemma headers_only_agree E src dst :
  agree_st (headers_plain E (S (length src)) (S (length src)) M.hcfg_default (length dst) 0 (P.cur_new src))
           (fst (fst (A.parse_headers E src dst))).
Proof.
  unfold A.parse_headers, M.parse_headers_iter_uninit.
  pose proof (headers_plain_agree E (S (length src)) M.hcfg_default (S (length src)) (P.apos (P.cur_new src)) 0 dst
                (P.cur_new src)) as H.
  destruct (M.headers_loop _ _ _ _ _ _ _ _) as [[st nh] arr']. cbn [fst] in H.
  destruct (headers_plain _ _ _ _ _ _ _), st; cbn [fst snd agree_st] in *; auto.
Qed.

(* parse_chunk_size *)
Lemma ers_chunk_loop dbg : forall f size ics iext count,
  ers (CM.chunk_loop dbg f size ics iext count) (M.chunk_loop dbg f size ics iext count).
Proof.
  induction f as [|f IH]; intros size ics iext count; cbn [CM.chunk_loop M.chunk_loop]; [apply ersf_fault|].
  change CM.chunk_digit with M.chunk_digit. change CM.is_digit with M.is_digit.
  change CM.hex_lower with M.hex_lower. change CM.hex_upper with M.hex_upper.
  apply ers_bind; [apply ers_next|intros b].
  repeat match goal with
         | |- ers (if ?c then _ else _) (if ?c then _ else _) => destruct c
         | |- ers (match ?x with _ => _ end) (match ?x with _ => _ end) => destruct x
         | |- ers (C.bind _ _) (P.bind _ _) => apply ers_bind; [apply ers_next|intros ?]
         end;
    first [apply IH | apply ersf_fail | apply ersf_fault | apply ers_ret].
Qed.
