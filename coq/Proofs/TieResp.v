(* TieResp.v -- the two `parse_with_config_and_uninit_headers` bodies and `parse_headers` as translated
   from /repo/src/lib.rs on this run (Generated/LibApi.v) = Api.request_core / response_core /
   parse_headers.  The usize guards (`orig_len - bytes.len()`) are discharged by conservation
   (Mono.v); the header machine is TieHeaders.tie_headers. *)
From Coq Require Import List NArith Bool Lia Arith.
From HV Require Import Cursor Scan Model Api Imp ImpLib ImpGlue.
From HV.Generated Require Import Lib LibApi.
From HV.Proofs Require Import TieBase Mono TieStartCommon TieStartResp TieHeaders TieApiBase.
Import ListNotations.
Local Open Scope N_scope.

Ltac api_unfold :=
  cbv beta iota delta [irun ifun ibind iret ilift iget iset ipart ifail ifault ithrow iguard iguard_idx ireturn
                       bind ret fail part fault_ expect next next_opt peek peek_n peek_ahead advance bump
                       slice slice_skip pos remaining commit apos rest pre tokrev stage space newline
                       g_response_core_self_version g_response_core_self_code g_response_core_self_reason
                       g_response_core_self_headers g_response_core_v_headers g_response_core_v_mem
                       set_g_response_core_self_version set_g_response_core_self_code set_g_response_core_self_reason
                       set_g_response_core_self_headers set_g_response_core_v_headers set_g_response_core_v_mem
                       q_method q_path q_version q_hdrs p_version p_code p_reason p_hdrs
                       is is_ws CR LF SP HT COLON].
Ltac api_unfold_in H :=
  cbv beta iota delta [irun ifun ibind iret ilift iget iset ipart ifail ifault ithrow iguard iguard_idx ireturn
                       bind ret fail part fault_ expect next next_opt peek peek_n peek_ahead advance bump
                       slice slice_skip pos remaining commit apos rest pre tokrev stage space newline
                       g_response_core_self_version g_response_core_self_code g_response_core_self_reason
                       g_response_core_self_headers g_response_core_v_headers g_response_core_v_mem
                       set_g_response_core_self_version set_g_response_core_self_code set_g_response_core_self_reason
                       set_g_response_core_self_headers set_g_response_core_v_headers set_g_response_core_v_mem
                       q_method q_path q_version q_hdrs p_version p_code p_reason p_hdrs
                       is is_ws CR LF SP HT COLON] in H.


(* one stage: the call of a translated start-line function, replaced by its model through the tie *)
Ltac stage_step tie mon :=
  rewrite tie;
  match goal with |- context [match ?call with Done _ _ => IDone _ _ _ | Part => _ | Fail _ => _ | Fault _ => _ end] =>
    let Ex := fresh "Ex" in
    destruct call as [? ?c| |?e|?f] eqn:Ex; api_unfold; try reflexivity; apply mon in Ex end.
(* the same, with the resulting cursor opened into its three fields *)
Ltac stage_step_r tie mon :=
  rewrite tie;
  match goal with |- context [match ?call with Done _ _ => IDone _ _ _ | Part => _ | Fail _ => _ | Fault _ => _ end] =>
    let Ex := fresh "Ex" in
    destruct call as [? [?p ?t ?r]| |?e|?f] eqn:Ex; api_unfold; try reflexivity; apply mon in Ex end.


Section ApiTie.
Variable E : env.
Hypothesis Efwd : env_fwd E.

Definition fin_resp (r : ires L_g_response_core nat unit nat) : rp_res :=
  let rp l := mkresp (g_response_core_self_version l) (g_response_core_self_code l)
                     (g_response_core_self_reason l) (g_response_core_self_headers l) in
  match r with
  | IDone n l _ => (Complete n, rp l, g_response_core_v_mem l)
  | IPart l => (Partial, rp l, g_response_core_v_mem l)
  | IFail e l => (Error e, rp l, g_response_core_v_mem l)
  | IFault f l => (Faulted f, rp l, g_response_core_v_mem l)
  | IExc _ l _ => (Faulted Unreachable, rp l, g_response_core_v_mem l)
  end.

Theorem tie_response_core cf buf rp arr :
  fin_resp (ifun (g_response_core_body E (S (length buf)) cf buf)
                 (g_response_core_init (p_version rp) (p_code rp) (p_reason rp) (p_hdrs rp) arr arr)
                 (cur_new buf))
  = response_core E cf buf rp arr.
Proof.
  destruct Efwd as (Hu & Hv & Hn).
  unfold g_response_core_body, g_response_core_init, response_core, after_code. set (fuel := S (length buf)).
  destruct rp as [v0 c0 r0 h0].
  assert (Tail : forall v cd rs c, step (cur_new buf) c ->
    fin_resp
      (ifun (fun l c0 =>
         (t22 <~ ilift remaining ;; iguard (Nat.leb t22 (length buf)) ;;~
          let len := Nat.sub (length buf) t22 in
          t23 <~ icall_headers E fuel (response_hcfg cf) g_response_core_v_headers set_g_response_core_v_headers
                   set_g_response_core_v_mem ;;
          l24 <~ iget ;; iset (set_g_response_core_self_headers (g_response_core_v_headers l24)) ;;~
          iret (Nat.add len t23))%imp l c0)
         (mkL_g_response_core v cd rs h0 arr arr) c)
    = match parse_headers_iter_uninit E fuel (response_hcfg cf) arr c with
      | (Complete headers_len, nh, arr') =>
          (Complete (apos c + headers_len), mkresp v cd rs (firstn nh arr'), arr')
      | (st, _, arr') => (st, mkresp v cd rs h0, arr')
      end).
  { intros v cd rs [pc tc rc] Hs. apply step_new in Hs. unfold apos in Hs. cbn [tokrev pre rest] in Hs.
    imp_only.
    rewrite (proj2 (Nat.leb_le _ _)) by lia. imp_only.
    pose proof (icall_headers_spec E Efwd (R:=nat) (B:=unit) (length buf) (response_hcfg cf) g_response_core_v_headers
                  set_g_response_core_v_headers set_g_response_core_v_mem
                  (mkL_g_response_core v cd rs h0 arr arr) (mkcur pc tc rc)) as Hc.
    cbv zeta in Hc. fold fuel in Hc. cbn [g_response_core_v_headers] in Hc.
    destruct (parse_headers_iter_uninit E fuel (response_hcfg cf) arr _) as [[[n| |e|f] nh] arr'].
    - destruct Hc as (c' & Hc). rewrite Hc. api_unfold. cbn [fin_resp]. api_unfold.
      replace (length buf - length rc)%nat with (length tc + pc)%nat by lia. reflexivity.
    - rewrite Hc. api_unfold. reflexivity.
    - rewrite Hc. api_unfold. reflexivity.
    - rewrite Hc. api_unfold. reflexivity. }
  api_unfold.
  stage_step tie_skip_empty_lines mono_skip_empty_lines.
  stage_step tie_parse_version mono_parse_version.
  match goal with |- context [match (let (_, _, rest) := ?c in rest) with _ => _ end] =>
    destruct c as [pa ta [|b ra]] end; api_unfold; [reflexivity|].
  destruct (N.eqb b 32); api_unfold; [|reflexivity].
  Ltac apply_tail Tail :=
    first [ refine (Tail _ _ _ _ _); step_lit
          | match goal with |- context [(if _ then _ else _) (mkL_g_response_core ?v ?cd ?rs _ _ _) ?c] =>
              exact (Tail v cd rs c ltac:(step_lit)) end ].
  Ltac after_code_script Tail Hu :=
    match goal with |- context [match (let (_, _, rest) := ?c in rest) with _ => _ end] =>
      destruct c as [pb tb [|b1 rb]] end;
    api_unfold; [reflexivity|];
    match goal with |- context [N.eqb ?b1 32] => destruct (N.eqb b1 32) end; api_unfold;
    [ (* SP: optional spaces, slice, reason *)
      first
      [ stage_step tie_skip_spaces mono_skip_spaces;
        stage_step tie_parse_reason mono_parse_reason;
        apply_tail Tail
      | stage_step tie_parse_reason mono_parse_reason;
        apply_tail Tail ]
    | match goal with |- context [N.eqb ?b1 13] => destruct (N.eqb b1 13) end; api_unfold;
      [ match goal with |- context [match ?rb with [] => Done None _ | _ => _ end] =>
          destruct rb as [|b2 rb2] end; api_unfold; [reflexivity|];
        match goal with |- context [N.eqb ?b2 10] => destruct (N.eqb b2 10) end; api_unfold; [|reflexivity];
        apply_tail Tail
      | match goal with |- context [N.eqb ?b1 10] => destruct (N.eqb b1 10) end; api_unfold; [|reflexivity];
        apply_tail Tail ] ].
  destruct (allow_multiple_spaces_in_response_status_delimiters cf) eqn:Ems; api_unfold.
  - stage_step tie_skip_spaces mono_skip_spaces.
    stage_step tie_parse_code mono_parse_code.
    after_code_script Tail Hu.
  - stage_step tie_parse_code mono_parse_code.
    after_code_script Tail Hu.
Qed.



(* ---- Response::parse_with_config as translated = Api.response_with_config ---- *)
Definition fin_respw (r : ires L_g_response_with_config nat unit nat) : rp_res :=
  let rp l := mkresp (g_response_with_config_self_version l) (g_response_with_config_self_code l)
                     (g_response_with_config_self_reason l) (g_response_with_config_self_headers l) in
  match r with
  | IDone n l _ => (Complete n, rp l, g_response_with_config_v_mem l)
  | IPart l => (Partial, rp l, g_response_with_config_v_mem l)
  | IFail e l => (Error e, rp l, g_response_with_config_v_mem l)
  | IFault f l => (Faulted f, rp l, g_response_with_config_v_mem l)
  | IExc _ l _ => (Faulted Unreachable, rp l, g_response_with_config_v_mem l)
  end.

Theorem tie_response_with_config cf buf rp x y :
  fin_respw (ifun (g_response_with_config_body E (S (length buf)) cf buf)
                  (g_response_with_config_init (p_version rp) (p_code rp) (p_reason rp) (p_hdrs rp) x y)
                  (cur_new buf))
  = response_with_config E cf buf rp.
Proof.
  destruct rp as [v0 c0 r0 h0]. unfold response_with_config. cbn [p_version p_code p_reason p_hdrs].
  rewrite <- (tie_response_core cf buf (mkresp v0 c0 r0 []) h0). cbn [p_version p_code p_reason p_hdrs].
  unfold g_response_with_config_body, g_response_with_config_init.
  cbv beta iota delta [ifun ibind iget iset isub_catch iret ireturn ithrow ipart ifail
                       set_g_response_with_config_v_mem set_g_response_with_config_self_headers
                       set_g_response_with_config_v_headers
                       g_response_with_config_self_version g_response_with_config_self_code
                       g_response_with_config_self_reason g_response_with_config_self_headers
                       g_response_with_config_v_headers g_response_with_config_v_mem].
  match goal with |- context [g_response_core_body E (S (length buf)) cf buf ?l0 (cur_new buf)] =>
    destruct (g_response_core_body E (S (length buf)) cf buf l0 (cur_new buf)) as [n l c|l|e l|f l|[k v|k|r] l c] end;
    cbn [fin_resp fin_respw]; reflexivity.
Qed.

End ApiTie.
