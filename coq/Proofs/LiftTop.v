(* LiftTop.v -- the four parsers at ADDRESS level.

   `addr_request_core B W be cf buf rq arr` runs, on the buffer `buf` placed at address B:
     Bytes::new            as translated from src/iter.rs (Generated/Iter.v),
     then the address-level program (Lift.cI) of parse_with_config_and_uninit_headers as translated from
     src/lib.rs (Generated/LibApi.v, Lib.v), in which every cursor operation is the translated iter.rs method,
     every scanner is the address-level program of the loop shell translated from src/simd/*.rs
     (Generated/Loops.v) of the backend `be` with word size W, and every `*p`, `p.add(n)`, `p.sub(n)`, pointer
     subtraction, `from_raw_parts` and vector load is a CHECKED step against [B, B + length buf) (Ptr.v).

   Theorems: for every base address, word size > 0, backend, configuration, buffer of bytes, Request value
   and header array, that run yields exactly the model's result (Api.request_core) -- in particular it is
   never a Fault: no checked pointer step of the whole parse leaves the caller's buffer, whatever lies around
   it and wherever it is placed.  Same for responses, parse_headers and parse_chunk_size. *)
From Coq Require Import List NArith Bool Arith Lia.
From HV Require Import Cursor Scan Model Api Spec Ptr Imp ImpLib ImpGlue Backends.
From HV.Generated Require Import Iter Lib LibApi.
From HV.Proofs Require Import Base EnvOk Refine Entries BackendsOk Chunk Mono BackendsFwd
                               TieIter Lift LiftLib TieReq TieResp TiePH TieChunk SrcReq SrcResp SrcPH SrcChunk.
Import ListNotations.

Definition c0 : cur := cur_new [].
Definition q_to_i {L R Bk A} (r : qires L R Bk A) : ires L R Bk A :=
  match r with
  | QIDone a l _ => IDone a l c0
  | QIPart l => IPart l
  | QIFail e l => IFail e l
  | QIFault f l => IFault f l
  | QIExc x l _ => IExc x l c0
  end.
Definition forget {L R Bk A} (r : ires L R Bk A) : ires L R Bk A :=
  match r with
  | IDone a l _ => IDone a l c0
  | IExc x l _ => IExc x l c0
  | other => other
  end.

Lemma sim_forget B data L R Bk A (q : QI L R Bk A) (p : I L R Bk A) l c :
  simI B data q p -> repr data c ->
  match p l c with
  | IFault _ l' => exists f, q_to_i (q l (pst_of B c)) = IFault f l'
  | r => q_to_i (q l (pst_of B c)) = forget r
  end.
Proof.
  intros H Hc. specialize (H l c Hc).
  destruct (p l c) as [a l' c'|l'|e l'|f l'|x l' c'].
  - destruct H as [-> _]. reflexivity.
  - rewrite H. reflexivity.
  - rewrite H. reflexivity.
  - destruct H as [f0 ->]. eexists. reflexivity.
  - destruct H as [-> _]. reflexivity.
Qed.

(* (the no-fault statements of Thm/C01.v, restated here so that Proofs/ does not depend on Thm/) *)
Lemma nf_request : forall E, env_ok E -> forall e cf buf arr rq f, bytes_ok buf ->
  fst (fst (request_call E e cf buf arr rq)) <> Faulted f.
Proof.
  intros E HE e cf buf arr rq f Hb. rewrite (request_call_ref E HE) by exact Hb.
  rewrite req_call_status. apply ref_request_no_fault.
Qed.
Lemma nf_response : forall E, env_ok E -> forall e cf buf arr rp f, bytes_ok buf ->
  fst (fst (response_call E e cf buf arr rp)) <> Faulted f.
Proof.
  intros E HE e cf buf arr rp f Hb. rewrite (response_call_ref E HE) by exact Hb.
  rewrite resp_call_status. apply ref_response_no_fault.
Qed.
Lemma nf_headers : forall E, env_ok E -> forall src dst f, bytes_ok src ->
  fst (fst (parse_headers E src dst)) <> Faulted f.
Proof.
  intros E HE src dst f Hb. rewrite (parse_headers_ref E HE) by exact Hb.
  pose proof (ref_headers_no_fault hcfg_default (length dst) 0 src f) as H.
  destruct (ref_headers hcfg_default (length dst) 0 src). exact H.
Qed.
Lemma nf_chunk : forall dbg buf f, fst (parse_chunk_size dbg buf) <> Faulted f.
Proof. intros. rewrite Chunk.chunk_ref_eq. apply ref_chunk_no_fault. Qed.

Lemma fin_reqw_forget r : fin_reqw (forget r) = fin_reqw r.
Proof. destruct r; reflexivity. Qed.
Lemma fin_respw_forget r : fin_respw (forget r) = fin_respw r.
Proof. destruct r; reflexivity. Qed.
Lemma fin_req_forget r : fin_req (forget r) = fin_req r.
Proof. destruct r; reflexivity. Qed.
Lemma fin_resp_forget r : fin_resp (forget r) = fin_resp r.
Proof. destruct r; reflexivity. Qed.
Lemma fin_ph_forget r : fin_ph (forget r) = fin_ph r.
Proof. destruct r as [[n hs] l c| | | |]; reflexivity. Qed.

Section Top.
Variable B : nat.       (* where the caller's buffer lies *)
Variable W : nat.       (* size_of::<usize>() *)
Hypothesis HW : 0 < W.
Variable be : backend.
Let E := env_of W be.

(* Bytes::new(buf), then the address-level program *)
Definition start {X} (buf : list N) (k : pst -> X) (bad : fault -> X) : X :=
  match i_new (B, length buf) (mkpmem B buf) (mkpst 0 0 0) with
  | PDone _ s0 => k s0
  | PFault f => bad f
  end.
Lemma start_new X buf (k : pst -> X) bad : start buf k bad = k (pst_of B (cur_new buf)).
Proof. unfold start. destruct (tie_iter_new B buf) as [-> _]. reflexivity. Qed.

Definition addr_request_core (cf : config) (buf : list N) (rq : request) (arr : list slot) : rq_res :=
  let fuel := S (length buf) in
  let '(dU, dV, dN) := d_env_of B buf W be fuel in
  let l0 := g_request_core_init (q_method rq) (q_path rq) (q_version rq) (q_hdrs rq) arr arr in
  start buf (fun s0 => fin_req (q_to_i (qi_fun (cI B buf (d_request_core B buf E fuel dU dV dN cf buf)) l0 s0)))
            (fun f => (Faulted f, rq, arr)).

Definition addr_response_core (cf : config) (buf : list N) (rp : response) (arr : list slot) : rp_res :=
  let fuel := S (length buf) in
  let '(dU, dV, dN) := d_env_of B buf W be fuel in
  let l0 := g_response_core_init (p_version rp) (p_code rp) (p_reason rp) (p_hdrs rp) arr arr in
  start buf (fun s0 => fin_resp (q_to_i (qi_fun (cI B buf (d_response_core B buf E fuel dV dN cf buf)) l0 s0)))
            (fun f => (Faulted f, rp, arr)).

(* the initialised-array entry points: Request::parse_with_config / Response::parse_with_config as translated *)
Definition addr_request_with_config (cf : config) (buf : list N) (rq : request) : rq_res :=
  let fuel := S (length buf) in
  let '(dU, dV, dN) := d_env_of B buf W be fuel in
  let l0 := g_request_with_config_init (q_method rq) (q_path rq) (q_version rq) (q_hdrs rq) [] [] in
  start buf (fun s0 => fin_reqw (q_to_i (qi_fun (cI B buf (d_request_with_config B buf E fuel dU dV dN cf buf)) l0 s0)))
            (fun f => (Faulted f, rq, q_hdrs rq)).
Definition addr_response_with_config (cf : config) (buf : list N) (rp : response) : rp_res :=
  let fuel := S (length buf) in
  let '(dU, dV, dN) := d_env_of B buf W be fuel in
  let l0 := g_response_with_config_init (p_version rp) (p_code rp) (p_reason rp) (p_hdrs rp) [] [] in
  start buf (fun s0 => fin_respw (q_to_i (qi_fun (cI B buf (d_response_with_config B buf E fuel dV dN cf buf)) l0 s0)))
            (fun f => (Faulted f, rp, p_hdrs rp)).

Definition addr_parse_headers (src : list N) (dst : list slot) : status * list slot * list slot :=
  let fuel := S (length src) in
  let '(dU, dV, dN) := d_env_of B src W be fuel in
  start src (fun s0 => fin_ph (q_to_i (qi_fun (cI B src (d_parse_headers B src E fuel dV dN src))
                                              (g_parse_headers_init dst dst) s0)))
            (fun f => (Faulted f, [], dst)).

Definition addr_parse_chunk_size (dbg : bool) (buf : list N) : status * N :=
  start buf (fun s0 => match cP B buf (d_parse_chunk_size B buf (S (length buf)) dbg) s0 with
                       | QDone (n, size) _ => (Complete n, size)
                       | QPart => (Partial, 0%N)
                       | QFail e => (Error e, 0%N)
                       | QFault f => (Faulted f, 0%N)
                       end)
            (fun f => (Faulted f, 0%N)).

Lemma E_ok : env_ok E. Proof. apply env_of_ok. exact HW. Qed.
Lemma E_fwd : env_fwd E. Proof. apply backends_fwd. Qed.

Theorem addr_request_core_model cf buf rq arr : bytes_ok buf ->
  addr_request_core cf buf rq arr = request_core E cf buf rq arr.
Proof.
  intros Hb. pose proof (nf_request E E_ok EConfigUninit cf buf arr rq) as NF.
  cbn [request_call] in NF. rewrite <- (src_request_core_eq E E_fwd) in *.
  unfold addr_request_core, src_request_core in *.
  destruct (d_env_of B buf W be (S (length buf))) as [[dU dV] dN]. rewrite start_new.
  set (l0 := g_request_core_init _ _ _ _ _ _) in *.
  pose proof (proj2 (lift_sound B buf) _ _ _ _ _ (d_request_core B buf E (S (length buf)) dU dV dN cf buf)) as HS.
  apply (simI_fun B buf) in HS.
  pose proof (sim_forget B buf _ _ _ _ _ _ l0 (cur_new buf) HS (proj2 (tie_iter_new B buf))) as T.
  change (cI B buf (bI_fun B buf _ _ _ _ ?d)) with (qi_fun (cI B buf d)) in T.
  destruct (ifun _ l0 (cur_new buf)) as [a l' c'|l'|e l'|f l'|x l' c'];
    try (rewrite T; apply fin_req_forget).
  exfalso. apply (NF f Hb). reflexivity.
Qed.

Theorem addr_response_core_model cf buf rp arr : bytes_ok buf ->
  addr_response_core cf buf rp arr = response_core E cf buf rp arr.
Proof.
  intros Hb. pose proof (nf_response E E_ok EConfigUninit cf buf arr rp) as NF.
  cbn [response_call] in NF. rewrite <- (src_response_core_eq E E_fwd) in *.
  unfold addr_response_core, src_response_core in *.
  destruct (d_env_of B buf W be (S (length buf))) as [[dU dV] dN]. rewrite start_new.
  set (l0 := g_response_core_init _ _ _ _ _ _) in *.
  pose proof (proj2 (lift_sound B buf) _ _ _ _ _ (d_response_core B buf E (S (length buf)) dV dN cf buf)) as HS.
  apply (simI_fun B buf) in HS.
  pose proof (sim_forget B buf _ _ _ _ _ _ l0 (cur_new buf) HS (proj2 (tie_iter_new B buf))) as T.
  destruct (ifun _ l0 (cur_new buf)) as [a l' c'|l'|e l'|f l'|x l' c'];
    try (rewrite T; apply fin_resp_forget).
  exfalso. apply (NF f Hb). reflexivity.
Qed.

Theorem addr_request_with_config_model cf buf rq : bytes_ok buf ->
  addr_request_with_config cf buf rq = request_with_config E cf buf rq.
Proof.
  intros Hb. pose proof (nf_request E E_ok EConfig cf buf [] rq) as NF.
  cbn [request_call] in NF. rewrite <- (tie_request_with_config E E_fwd cf buf rq [] []) in *.
  unfold addr_request_with_config.
  destruct (d_env_of B buf W be (S (length buf))) as [[dU dV] dN]. rewrite start_new.
  set (l0 := g_request_with_config_init _ _ _ _ _ _) in *.
  pose proof (proj2 (lift_sound B buf) _ _ _ _ _ (d_request_with_config B buf E (S (length buf)) dU dV dN cf buf)) as HS.
  apply (simI_fun B buf) in HS.
  pose proof (sim_forget B buf _ _ _ _ _ _ l0 (cur_new buf) HS (proj2 (tie_iter_new B buf))) as T.
  destruct (ifun _ l0 (cur_new buf)) as [a l' c'|l'|e l'|f l'|x l' c'];
    try (rewrite T; apply fin_reqw_forget).
  exfalso. apply (NF f Hb). reflexivity.
Qed.

Theorem addr_response_with_config_model cf buf rp : bytes_ok buf ->
  addr_response_with_config cf buf rp = response_with_config E cf buf rp.
Proof.
  intros Hb. pose proof (nf_response E E_ok EConfig cf buf [] rp) as NF.
  cbn [response_call] in NF. rewrite <- (tie_response_with_config E E_fwd cf buf rp [] []) in *.
  unfold addr_response_with_config.
  destruct (d_env_of B buf W be (S (length buf))) as [[dU dV] dN]. rewrite start_new.
  set (l0 := g_response_with_config_init _ _ _ _ _ _) in *.
  pose proof (proj2 (lift_sound B buf) _ _ _ _ _ (d_response_with_config B buf E (S (length buf)) dV dN cf buf)) as HS.
  apply (simI_fun B buf) in HS.
  pose proof (sim_forget B buf _ _ _ _ _ _ l0 (cur_new buf) HS (proj2 (tie_iter_new B buf))) as T.
  destruct (ifun _ l0 (cur_new buf)) as [a l' c'|l'|e l'|f l'|x l' c'];
    try (rewrite T; apply fin_respw_forget).
  exfalso. apply (NF f Hb). reflexivity.
Qed.

Theorem addr_parse_headers_model src dst : bytes_ok src ->
  addr_parse_headers src dst = parse_headers E src dst.
Proof.
  intros Hb. pose proof (nf_headers E E_ok src dst) as NF.
  rewrite <- (src_parse_headers_eq E E_fwd) in *.
  unfold addr_parse_headers, src_parse_headers in *.
  destruct (d_env_of B src W be (S (length src))) as [[dU dV] dN]. rewrite start_new.
  set (l0 := g_parse_headers_init dst dst) in *.
  pose proof (proj2 (lift_sound B src) _ _ _ _ _ (d_parse_headers B src E (S (length src)) dV dN src)) as HS.
  apply (simI_fun B src) in HS.
  pose proof (sim_forget B src _ _ _ _ _ _ l0 (cur_new src) HS (proj2 (tie_iter_new B src))) as T.
  destruct (ifun _ l0 (cur_new src)) as [a l' c'|l'|e l'|f l'|x l' c'];
    try (rewrite T; apply fin_ph_forget).
  exfalso. apply (NF f Hb). reflexivity.
Qed.

End Top.

Theorem addr_parse_chunk_size_model B dbg buf :
  addr_parse_chunk_size B dbg buf = parse_chunk_size dbg buf.
Proof.
  pose proof (nf_chunk dbg buf) as NF. rewrite <- src_parse_chunk_size_eq in *.
  unfold addr_parse_chunk_size, src_parse_chunk_size in *. rewrite start_new.
  pose proof (proj1 (lift_sound B buf) _ _ (d_parse_chunk_size B buf (S (length buf)) dbg)
                    (cur_new buf) (proj2 (tie_iter_new B buf))) as T.
  destruct (g_parse_chunk_size dbg (S (length buf)) (cur_new buf)) as [[n size] c'| |e|f].
  - destruct T as [-> _]. reflexivity.
  - rewrite T. reflexivity.
  - rewrite T. reflexivity.
  - exfalso. apply (NF f). reflexivity.
Qed.
