(* Proofs/BackendsOk.v -- every provider of the three scanner entry points satisfies the
   interface of EnvOk.v, for every BLOCK_SIZE > 0.  This is scanner_exact of C12 and
   the reason backend_independent (C13) holds. *)
From Coq Require Import List NArith ZArith Lia Bool ZifyBool ZifyN ZifyNat.
From HV Require Import Cursor Scan Intrinsics Model Api Spec Backends.
From HV.Generated Require Import Classes Swar Sse42 Avx2 Neon Cfg.
From HV.Proofs Require Import Base Swar ScanLoops EnvOk Kernels.
Import ListNotations.

Lemma strict_lt_256 m b : strict_class m b = true -> (b < 256)%N.
Proof. unfold strict_class. lia. Qed.

Lemma implb_true a b : implb a b = true -> a = true -> b = true.
Proof. destruct a, b; cbn; congruence. Qed.

Lemma strict33_sub_uri b : strict_class 33 b = true -> is_uri_token b = true.
Proof.
  intros H. pose proof (strict_lt_256 _ _ H) as Hlt.
  rewrite is_uri_token_class, <- strict33_class by exact Hlt. exact H.
Qed.
Lemma strict32_sub_value' b : strict_class 32 b = true -> is_header_value_token b = true.
Proof.
  intros H. pose proof (strict_lt_256 _ _ H) as Hlt.
  rewrite is_header_value_token_class by exact Hlt.
  exact (implb_true _ _ (strict32_sub_value b Hlt) H).
Qed.

Section Width.
Variable W : nat.
Hypothesis HW : 0 < W.

Lemma swar_uri_exact : scan_exact (swar_uri W) uri_char.
Proof.
  apply (scan_exact_ext _ is_uri_token); [exact is_uri_token_class|].
  unfold swar_uri. apply (swar_loop_exact W _ (strict_class 33) is_uri_token HW).
  - intros block Hl Hb. apply swar_uri_kernel_exact; assumption.
  - exact strict33_sub_uri.
Qed.
Lemma swar_value_exact : scan_exact (swar_value W) value_char.
Proof.
  apply (scan_exact_ext _ is_header_value_token); [exact is_header_value_token_class|].
  unfold swar_value. apply (swar_loop_exact W _ (strict_class 32) is_header_value_token HW).
  - intros block Hl Hb. apply swar_value_kernel_exact; assumption.
  - exact strict32_sub_value'.
Qed.
Lemma swar_name_exact' : scan_exact (swar_name W) tchar.
Proof.
  apply (scan_exact_ext _ is_header_name_token); [exact is_header_name_token_class|].
  unfold swar_name. apply swar_name_exact. exact HW.
Qed.

Lemma classes_ok u v n :
  scan_exact u uri_char -> scan_exact v value_char -> scan_exact n tchar -> env_ok (mk u v n).
Proof.
  intros Hu Hv Hn. constructor; cbn [mk c_method c_uri c_name c_value s_uri s_value s_name].
  - exact is_method_token_class.
  - exact is_uri_token_class.
  - exact is_header_name_token_class.
  - exact is_header_value_token_class.
  - exact Hu.
  - exact Hv.
  - exact Hn.
Qed.

Theorem env_swar_ok : env_ok (env_swar W).
Proof. apply classes_ok; [exact swar_uri_exact|exact swar_value_exact|exact swar_name_exact']. Qed.

Theorem env_sse42_ok : env_ok (env_sse42 W).
Proof.
  apply classes_ok; [| |exact swar_name_exact'].
  - unfold sse42_match_uri_vectored, match_url_char_16_sse_lanes.
    apply (simd_loop_exact 16 _ uri_char (swar_uri W)); [lia|exact sse_uri_kernel_exact|exact swar_uri_exact].
  - unfold sse42_match_header_value_vectored, match_header_value_char_16_sse_lanes.
    apply (simd_loop_exact 16 _ value_char (swar_value W)); [lia|exact sse_value_kernel_exact|exact swar_value_exact].
Qed.

Theorem env_avx2_ok : env_ok (env_avx2 W).
Proof.
  apply classes_ok; [| |exact swar_name_exact'].
  - unfold avx2_match_uri_vectored, match_url_char_32_avx_lanes.
    apply (simd_loop_exact 32 _ uri_char (swar_uri W)); [lia|exact avx_uri_kernel_exact|exact swar_uri_exact].
  - unfold avx2_match_header_value_vectored, match_header_value_char_32_avx_lanes.
    apply (simd_loop_exact 32 _ value_char (swar_value W)); [lia|exact avx_value_kernel_exact|exact swar_value_exact].
Qed.

Theorem env_neon_ok : env_ok (env_neon W).
Proof.
  apply classes_ok.
  - unfold neon_match_uri_vectored, match_url_char_16_neon_lanes.
    apply (simd_loop_exact 16 _ uri_char (swar_uri W)); [lia|exact neon_uri_kernel_exact|exact swar_uri_exact].
  - unfold neon_match_header_value_vectored, match_header_value_char_16_neon_lanes.
    apply (simd_loop_exact 16 _ value_char (swar_value W)); [lia|exact neon_value_kernel_exact|exact swar_value_exact].
  - unfold neon_match_header_name_vectored, match_header_name_char_16_neon_lanes.
    apply (simd_loop_exact 16 _ tchar (swar_name W)); [lia|exact neon_name_kernel_exact|exact swar_name_exact'].
Qed.

Theorem env_runtime_ok : forall id, env_ok (env_runtime W id).
Proof.
  intros id. unfold env_runtime.
  destruct (N.eqb id RT_AVX2); [exact env_avx2_ok|].
  destruct (N.eqb id RT_SSE42); [exact env_sse42_ok|exact env_swar_ok].
Qed.

Theorem env_of_ok : forall be, env_ok (env_of W be).
Proof.
  intros [| | | |id]; cbn [env_of];
    [exact env_swar_ok|exact env_sse42_ok|exact env_avx2_ok|exact env_neon_ok|exact (env_runtime_ok id)].
Qed.
End Width.
