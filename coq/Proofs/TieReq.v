(* TieReq.v -- the two `parse_with_config_and_uninit_headers` bodies and `parse_headers` as translated
   from /repo/src/lib.rs on this run (Generated/LibApi.v) = Api.request_core / response_core /
   parse_headers.  The usize guards (`orig_len - bytes.len()`) are discharged by conservation
   (Mono.v); the header machine is TieHeaders.tie_headers. *)
From Coq Require Import List NArith Bool Lia Arith.
From HV Require Import Cursor Scan Model Api Imp ImpLib ImpGlue.
From HV.Generated Require Import Lib LibApi.
From HV.Proofs Require Import TieBase Mono TieStartCommon TieStartReq TieHeaders TieApiBase.
Import ListNotations.
Local Open Scope N_scope.

Ltac api_unfold :=
  cbv beta iota delta [irun ifun ibind iret ilift iget iset ipart ifail ifault ithrow iguard iguard_idx ireturn
                       bind ret fail part fault_ expect next next_opt peek peek_n peek_ahead advance bump
                       slice slice_skip pos remaining commit apos rest pre tokrev stage space newline
                       g_request_core_self_method g_request_core_self_path g_request_core_self_version
                       g_request_core_self_headers g_request_core_v_headers g_request_core_v_mem
                       set_g_request_core_self_method set_g_request_core_self_path set_g_request_core_self_version
                       set_g_request_core_self_headers set_g_request_core_v_headers set_g_request_core_v_mem
                       q_method q_path q_version q_hdrs p_version p_code p_reason p_hdrs
                       is is_ws CR LF SP HT COLON].
Ltac api_unfold_in H :=
  cbv beta iota delta [irun ifun ibind iret ilift iget iset ipart ifail ifault ithrow iguard iguard_idx ireturn
                       bind ret fail part fault_ expect next next_opt peek peek_n peek_ahead advance bump
                       slice slice_skip pos remaining commit apos rest pre tokrev stage space newline
                       g_request_core_self_method g_request_core_self_path g_request_core_self_version
                       g_request_core_self_headers g_request_core_v_headers g_request_core_v_mem
                       set_g_request_core_self_method set_g_request_core_self_path set_g_request_core_self_version
                       set_g_request_core_self_headers set_g_request_core_v_headers set_g_request_core_v_mem
                       q_method q_path q_version q_hdrs p_version p_code p_reason p_hdrs
                       is is_ws CR LF SP HT COLON] in H.


(* one stage: the call of a translated start-line function, replaced by its model through the tie *)
Ltac stage_step tie mon :=
  rewrite tie;
  match goal with |- context [match ?call with Done _ _ => IDone _ _ _ | Part => _ | Fail _ => _ | Fault _ => _ end] =>
    let Ex := fresh "Ex" in
    destruct call as [? ?c| |?e|?f] eqn:Ex; api_unfold; try reflexivity; apply mon in Ex end.
(* the same, with the resulting cursor opened into its three fields *)
Ltac stage_step_r tie mon :=
  rewrite tie;
  match goal with |- context [match ?call with Done _ _ => IDone _ _ _ | Part => _ | Fail _ => _ | Fault _ => _ end] =>
    let Ex := fresh "Ex" in
    destruct call as [? [?p ?t ?r]| |?e|?f] eqn:Ex; api_unfold; try reflexivity; apply mon in Ex end.


Section ApiTie.
Variable E : env.
Hypothesis Efwd : env_fwd E.

Definition fin_req (r : ires L_g_request_core nat unit nat) : rq_res :=
  let rq l := mkreq (g_request_core_self_method l) (g_request_core_self_path l)
                    (g_request_core_self_version l) (g_request_core_self_headers l) in
  match r with
  | IDone n l _ => (Complete n, rq l, g_request_core_v_mem l)
  | IPart l => (Partial, rq l, g_request_core_v_mem l)
  | IFail e l => (Error e, rq l, g_request_core_v_mem l)
  | IFault f l => (Faulted f, rq l, g_request_core_v_mem l)
  | IExc _ l _ => (Faulted Unreachable, rq l, g_request_core_v_mem l)
  end.

Theorem tie_request_core cf buf rq arr :
  fin_req (ifun (g_request_core_body E (S (length buf)) cf buf)
                (g_request_core_init (q_method rq) (q_path rq) (q_version rq) (q_hdrs rq) arr arr)
                (cur_new buf))
  = request_core E cf buf rq arr.
Proof.
  destruct Efwd as (Hu & Hv & Hn).
  unfold g_request_core_body, g_request_core_init, request_core. set (fuel := S (length buf)).
  destruct rq as [m0 p0 v0 h0].
  assert (Tail : forall m p v c, step (cur_new buf) c ->
    fin_req
      (ifun (fun l c0 =>
         (t16 <~ ilift remaining ;; iguard (Nat.leb t16 (length buf)) ;;~
          let len := Nat.sub (length buf) t16 in
          t17 <~ icall_headers E fuel (request_hcfg cf) g_request_core_v_headers set_g_request_core_v_headers
                   set_g_request_core_v_mem ;;
          l18 <~ iget ;; iset (set_g_request_core_self_headers (g_request_core_v_headers l18)) ;;~
          iret (Nat.add len t17))%imp l c0)
         (mkL_g_request_core m p v h0 arr arr) c)
    = match parse_headers_iter_uninit E fuel (request_hcfg cf) arr c with
      | (Complete headers_len, nh, arr') =>
          (Complete (apos c + headers_len), mkreq m p v (firstn nh arr'), arr')
      | (st, _, arr') => (st, mkreq m p v h0, arr')
      end).
  { intros m p v [pc tc rc] Hs. apply step_new in Hs. unfold apos in Hs. cbn [tokrev pre rest] in Hs.
    imp_only.
    rewrite (proj2 (Nat.leb_le _ _)) by lia. imp_only.
    pose proof (icall_headers_spec E Efwd (R:=nat) (B:=unit) (length buf) (request_hcfg cf) g_request_core_v_headers
                  set_g_request_core_v_headers set_g_request_core_v_mem
                  (mkL_g_request_core m p v h0 arr arr) (mkcur pc tc rc)) as Hc.
    cbv zeta in Hc. fold fuel in Hc. cbn [g_request_core_v_headers] in Hc.
    destruct (parse_headers_iter_uninit E fuel (request_hcfg cf) arr _) as [[[n| |e|f] nh] arr'].
    - destruct Hc as (c' & Hc). rewrite Hc. api_unfold. cbn [fin_req]. api_unfold.
      replace (length buf - length rc)%nat with (length tc + pc)%nat by lia. reflexivity.
    - rewrite Hc. api_unfold. reflexivity.
    - rewrite Hc. api_unfold. reflexivity.
    - rewrite Hc. api_unfold. reflexivity. }
  (* after the version: newline!, then the tail *)
  assert (NL : forall m p v c, step (cur_new buf) c ->
    fin_req
      (ifun (fun l c0 =>
         ((t9 <~ (t7 <~ ilift next_opt ;; match t7 with Some v8 => let b := v8 in iret b | None => ipart end) ;;
           (if N.eqb t9 13 then
              (t13 <~ (t12 <~ (t10 <~ ilift next_opt ;;
                               match t10 with Some v11 => let b := v11 in iret b | None => ipart end) ;;
                       (if N.eqb t12 10 then (let v := t12 in iret v) else ifail NewLine)) ;;
               t14 <~ ilift slice ;; iret tt)
            else (if N.eqb t9 10 then (t15 <~ ilift slice ;; iret tt) else ifail NewLine))) ;;~
          t16 <~ ilift remaining ;; iguard (Nat.leb t16 (length buf)) ;;~
          let len := Nat.sub (length buf) t16 in
          t17 <~ icall_headers E fuel (request_hcfg cf) g_request_core_v_headers set_g_request_core_v_headers
                   set_g_request_core_v_mem ;;
          l18 <~ iget ;; iset (set_g_request_core_self_headers (g_request_core_v_headers l18)) ;;~
          iret (Nat.add len t17))%imp l c0)
         (mkL_g_request_core m p v h0 arr arr) c)
    = stage (newline c) (mkreq m p v h0) (fun st rq => (st, rq, arr)) (fun _ c =>
        match parse_headers_iter_uninit E fuel (request_hcfg cf) arr c with
        | (Complete headers_len, nh, arr') =>
            (Complete (apos c + headers_len), mkreq m p v (firstn nh arr'), arr')
        | (st, _, arr') => (st, mkreq m p v h0, arr')
        end)).
  { intros m p v [pc tc rc] Hs.
    assert (St : forall (k : nat) (r' : list N), (length r' + k = length rc)%nat ->
               step (cur_new buf) (mkcur (k + length tc + pc)%nat [] r')).
    { intros k r' Hk. destruct Hs as [Ha Ht]. unfold step, total, apos, cur_new in *.
      cbn [pre tokrev rest length] in *. lia. }
    unfold newline. api_unfold.
    destruct rc as [|b rc]; api_unfold; [reflexivity|].
    destruct (N.eqb b 13); api_unfold.
    - destruct rc as [|b2 rc]; api_unfold; [reflexivity|].
      destruct (N.eqb b2 10); api_unfold; [|reflexivity].
      exact (Tail m p v _ (St 2%nat rc ltac:(cbn [length]; lia))).
    - destruct (N.eqb b 10); api_unfold; [|reflexivity].
      exact (Tail m p v _ (St 1%nat rc ltac:(cbn [length]; lia))). }
  api_unfold.
  stage_step tie_skip_empty_lines mono_skip_empty_lines.
  stage_step tie_parse_method mono_parse_method.
  destruct (allow_multiple_spaces_in_request_line_delimiters cf) eqn:Ems; api_unfold.
  - stage_step tie_skip_spaces mono_skip_spaces.
    stage_step tie_parse_uri (mono_parse_uri E fuel Hu).
    stage_step tie_skip_spaces mono_skip_spaces.
    stage_step tie_parse_version mono_parse_version.
    refine (NL _ _ _ _ _). eauto 10 using step_trans.
  - stage_step tie_parse_uri (mono_parse_uri E fuel Hu).
    stage_step tie_parse_version mono_parse_version.
    refine (NL _ _ _ _ _). eauto 10 using step_trans.
Qed.

(* ---- Request::parse_with_config as translated (take self.headers, cast, call the core, restore unless
   Complete) = Api.request_with_config ---- *)
Definition fin_reqw (r : ires L_g_request_with_config nat unit nat) : rq_res :=
  let rq l := mkreq (g_request_with_config_self_method l) (g_request_with_config_self_path l)
                    (g_request_with_config_self_version l) (g_request_with_config_self_headers l) in
  match r with
  | IDone n l _ => (Complete n, rq l, g_request_with_config_v_mem l)
  | IPart l => (Partial, rq l, g_request_with_config_v_mem l)
  | IFail e l => (Error e, rq l, g_request_with_config_v_mem l)
  | IFault f l => (Faulted f, rq l, g_request_with_config_v_mem l)
  | IExc _ l _ => (Faulted Unreachable, rq l, g_request_with_config_v_mem l)
  end.

Theorem tie_request_with_config cf buf rq x y :
  fin_reqw (ifun (g_request_with_config_body E (S (length buf)) cf buf)
                 (g_request_with_config_init (q_method rq) (q_path rq) (q_version rq) (q_hdrs rq) x y)
                 (cur_new buf))
  = request_with_config E cf buf rq.
Proof.
  destruct rq as [m0 p0 v0 h0]. unfold request_with_config. cbn [q_method q_path q_version q_hdrs].
  rewrite <- (tie_request_core cf buf (mkreq m0 p0 v0 []) h0). cbn [q_method q_path q_version q_hdrs].
  unfold g_request_with_config_body, g_request_with_config_init.
  cbv beta iota delta [ifun ibind iget iset isub_catch iret ireturn ithrow ipart ifail
                       set_g_request_with_config_v_mem set_g_request_with_config_self_headers
                       set_g_request_with_config_v_headers
                       g_request_with_config_self_method g_request_with_config_self_path
                       g_request_with_config_self_version g_request_with_config_self_headers
                       g_request_with_config_v_headers g_request_with_config_v_mem].
  match goal with |- context [g_request_core_body E (S (length buf)) cf buf ?l0 (cur_new buf)] =>
    destruct (g_request_core_body E (S (length buf)) cf buf l0 (cur_new buf)) as [n l c|l|e l|f l|[k v|k|r] l c] end;
    cbn [fin_req fin_reqw]; reflexivity.
Qed.

End ApiTie.
