(* Ptr.v -- target of the iter.rs translator (translator/iter2v.py, G10): the `Bytes` cursor at the
   level of ADDRESSES.  The caller's buffer occupies [pm_base, pm_base + length pm_data); a `Bytes`
   value is three addresses.  Every pointer operation of iter.rs is a CHECKED operation here:
     *p                  needs  base <= p < base + len                         (else Fault LoadOOB)
     p.add(n), p.sub(n)  need the result inside [base, base + len]  (Rust: UB otherwise)  (AdvanceOOB / SkipUnderflow)
     a as usize - b as usize   needs b <= a   (debug: panic; release: a wrapped length)   (SkipUnderflow)
   so "reads no byte outside the caller's buffer" is "no Fault" of the translated methods. *)
From Coq Require Import List NArith Bool Arith.
From HV Require Import Cursor.
Import ListNotations.

Record pmem := mkpmem { pm_base : nat; pm_data : list N }.
Record pst := mkpst { ps_start : nat; ps_end : nat; ps_cursor : nat }.

Inductive pres (A : Type) :=
| PDone (a : A) (s : pst)
| PFault (f : fault).
Arguments PDone {A}. Arguments PFault {A}.

Definition Q (A : Type) := pmem -> pst -> pres A.
Definition qret {A} (a : A) : Q A := fun _ s => PDone a s.
Definition qbind {A B} (m : Q A) (k : A -> Q B) : Q B := fun mem s =>
  match m mem s with PDone a s' => k a mem s' | PFault f => PFault f end.
Definition qfault {A} (f : fault) : Q A := fun _ _ => PFault f.
Definition qget : Q pst := fun _ s => PDone s s.
Definition qput (s : pst) : Q unit := fun _ _ => PDone tt s.

Definition pm_limit (m : pmem) : nat := pm_base m + length (pm_data m).

(* `*p` *)
Definition q_deref (p : nat) : Q N := fun m s =>
  if Nat.leb (pm_base m) p && Nat.ltb p (pm_limit m)
  then PDone (nth (p - pm_base m) (pm_data m) 0%N) s else PFault LoadOOB.
(* `p.add(n)` *)
Definition q_add (p n : nat) : Q nat := fun m s =>
  if Nat.leb (pm_base m) p && Nat.leb (p + n) (pm_limit m) then PDone (p + n) s else PFault AdvanceOOB.
(* `p.sub(n)` *)
Definition q_sub (p n : nat) : Q nat := fun m s =>
  if Nat.leb n p && Nat.leb (pm_base m) (p - n) && Nat.leb p (pm_limit m) then PDone (p - n) s else PFault SkipUnderflow.
(* `a as usize - b as usize` *)
Definition q_usub (a b : nat) : Q nat := fun _ s =>
  if Nat.leb b a then PDone (a - b) s else PFault SkipUnderflow.
(* `core::slice::from_raw_parts(p, n)`: a (pointer, length) pair; the memory must be inside the buffer *)
Definition q_raw_parts (p n : nat) : Q (nat * nat) := fun m s =>
  if Nat.leb (pm_base m) p && Nat.leb (p + n) (pm_limit m) then PDone (p, n) s else PFault LoadOOB.

Declare Scope ptr_scope.
Delimit Scope ptr_scope with ptr.
Notation "x <- m ;;; k" := (qbind m (fun x => k)) (at level 61, m at next level, right associativity) : ptr_scope.
Notation "m ;;;; k" := (qbind m (fun _ => k)) (at level 61, right associativity) : ptr_scope.

(* the bytes a (pointer, length) pair denotes, and the slice value of Cursor.v it corresponds to *)
Definition read_slice (m : pmem) (pl : nat * nat) : sl :=
  Sub (fst pl - pm_base m) (firstn (snd pl) (skipn (fst pl - pm_base m) (pm_data m))).
