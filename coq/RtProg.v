(* RtProg.v -- a small language for the cached-backend cell of src/simd/runtime.rs and its semantics under
   relaxed atomics.  `get_runtime_feature` is TRANSLATED into this language on every run (Generated/Runtime.v, G15);
   Proofs/RuntimeProg.v proves an abstract interpreter sound for EVERY program of the language under EVERY
   interleaving of any number of threads, and Thm/C13.v runs it on the translated program.

   One atomic cell (RUNTIME_FEATURE), thread-local registers (the function's locals).  A relaxed load may return any
   value of the cell's modification order that is not older than what the thread has already observed
   (per-location coherence); a store appends to the modification order; detect() returns a fixed d (the CPU does not
   change between calls).  Stronger orderings (Acquire / Release / SeqCst) only remove behaviours. *)
From Coq Require Import List NArith Bool Arith.
Import ListNotations.

Inductive instr :=
| ILoad (r : nat)                               (* r = CELL.load(..) *)
| IDetect (r : nat)                             (* r = detect_runtime_feature() *)
| IStore (r : nat)                              (* CELL.store(r, ..) *)
| IMov (dst src : nat)                          (* dst = src *)
| IIf (z : bool) (r : nat) (body els : list instr)  (* if (r == 0) == z { body } else { els } *)
| IRet (r : nat).                               (* return r (also the tail expression) *)

Definition upd {A : Type} (f : nat -> A) (r : nat) (x : A) : nat -> A :=
  fun r' => if Nat.eqb r' r then x else f r'.

Record thread := mkthread { t_k : list instr;        (* what is left to execute *)
                            t_regs : nat -> N;
                            t_seen : nat;            (* index into the modification order *)
                            t_out : option N }.      (* the value returned, once it has returned *)
Record state := mkstate { mo : list N;               (* modification order of the cell, oldest first *)
                          threads : list thread }.

Fixpoint set_nth {A} (i : nat) (x : A) (l : list A) : list A :=
  match l, i with
  | [], _ => []
  | _ :: r, O => x :: r
  | y :: r, S j => y :: set_nth j x r
  end.

Section Sem.
Variable d : N.                                      (* what detect() returns on this CPU *)
Variable prog : list instr.

Definition init (n : nat) : state :=
  mkstate [0%N] (repeat (mkthread prog (fun _ => 0%N) 0 None) n).

Inductive step : state -> state -> Prop :=
| SLoad : forall s i t r k j v,
    nth_error (threads s) i = Some t -> t_k t = ILoad r :: k ->
    t_seen t <= j -> nth_error (mo s) j = Some v ->
    step s (mkstate (mo s) (set_nth i (mkthread k (upd (t_regs t) r v) j (t_out t)) (threads s)))
| SDetect : forall s i t r k,
    nth_error (threads s) i = Some t -> t_k t = IDetect r :: k ->
    step s (mkstate (mo s) (set_nth i (mkthread k (upd (t_regs t) r d) (t_seen t) (t_out t)) (threads s)))
| SStore : forall s i t r k,
    nth_error (threads s) i = Some t -> t_k t = IStore r :: k ->
    step s (mkstate (mo s ++ [t_regs t r])
                    (set_nth i (mkthread k (t_regs t) (length (mo s)) (t_out t)) (threads s)))
| SMov : forall s i t a b k,
    nth_error (threads s) i = Some t -> t_k t = IMov a b :: k ->
    step s (mkstate (mo s) (set_nth i (mkthread k (upd (t_regs t) a (t_regs t b)) (t_seen t) (t_out t)) (threads s)))
| SIfIn : forall s i t z r body els k,
    nth_error (threads s) i = Some t -> t_k t = IIf z r body els :: k ->
    N.eqb (t_regs t r) 0 = z ->
    step s (mkstate (mo s) (set_nth i (mkthread (body ++ k) (t_regs t) (t_seen t) (t_out t)) (threads s)))
| SIfOut : forall s i t z r body els k,
    nth_error (threads s) i = Some t -> t_k t = IIf z r body els :: k ->
    N.eqb (t_regs t r) 0 = negb z ->
    step s (mkstate (mo s) (set_nth i (mkthread (els ++ k) (t_regs t) (t_seen t) (t_out t)) (threads s)))
| SRet : forall s i t r k,
    nth_error (threads s) i = Some t -> t_k t = IRet r :: k ->
    step s (mkstate (mo s) (set_nth i (mkthread [] (t_regs t) (t_seen t) (Some (t_regs t r))) (threads s))).

Inductive reachable (n : nat) : state -> Prop :=
| RInit : reachable n (init n)
| RStep : forall s s', reachable n s -> step s s' -> reachable n s'.
End Sem.

(* ---- the abstract interpreter: what is known about a register ---- *)
Inductive aval := AZero | AD | AOk | ATop.     (* = 0 | = d | 0 or d | anything *)
Definition is_AD (a : aval) : bool := match a with AD => true | _ => false end.
(* (what the register is when it compares equal to 0, what it is when it does not); None = that branch is impossible *)
Definition split_zero (a : aval) : option aval * option aval :=
  match a with
  | AZero => (Some AZero, None)
  | AD => (None, Some AD)
  | AOk => (Some AZero, Some AD)
  | ATop => (Some AZero, Some ATop)
  end.

(* true = on every path every store writes d, every path returns, and what it returns is d *)
Fixpoint acheck (fuel : nat) (k : list instr) (rho : nat -> aval) : bool :=
  match fuel with
  | O => false
  | S f =>
    match k with
    | [] => false                                        (* fell off the end without returning *)
    | ILoad r :: k' => acheck f k' (upd rho r AOk)
    | IDetect r :: k' => acheck f k' (upd rho r AD)
    | IStore r :: k' => is_AD (rho r) && acheck f k' rho
    | IMov a b :: k' => acheck f k' (upd rho a (rho b))
    | IIf z r body els :: k' =>
        let (az, anz) := split_zero (rho r) in
        let (ain, aout) := if z then (az, anz) else (anz, az) in
        (match ain with None => true | Some a => acheck f (body ++ k') (upd rho r a) end) &&
        (match aout with None => true | Some a => acheck f (els ++ k') (upd rho r a) end)
    | IRet r :: _ => is_AD (rho r)
    end
  end.
Definition rt_fuel : nat := 64.
Definition acheck_prog (p : list instr) : bool := acheck rt_fuel p (fun _ => ATop).
