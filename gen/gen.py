"""gen.py -- deterministic case generators (DESIGN.md section 6.3).

Every random choice derives from one SplitMix64 state seeded by VERIF_SEED; the family
and index of a case are part of its id, so any disagreement replays exactly.

A case is a tuple; `line(case)` renders the tab-separated line both the Rust harness
and the OCaml driver read:
   ("A", id, kind, entry, cfg, cap, bytes)
   ("H", id, kind, cap, [(entry, cfg, ucap, bytes), ...])
   ("L", id, kind, entry, cfg, cap, off, fill, bytes)        the buffer at byte offset off of a 64-byte aligned arena of `fill` bytes
   ("R", id, kind, cap, [(entry, cfg, cap_i, bytes), ...])   recycled buffer: every call is made with a FRESH value over a
                                                             fresh array, its bytes written to ONE address; the last reported
   ("S", id, backend, cls, align, bytes)
   ("K", id, which, bytes)
   ("U", id, bytes)
"""
import os
import re

MASK = (1 << 64) - 1


class Rng:
    def __init__(self, seed):
        self.s = (seed * 0x9E3779B97F4A7C15 + 0x1234567) & MASK

    def next(self):
        self.s = (self.s + 0x9E3779B97F4A7C15) & MASK
        z = self.s
        z = ((z ^ (z >> 30)) * 0xBF58476D1CE4E5B9) & MASK
        z = ((z ^ (z >> 27)) * 0x94D049BB133111EB) & MASK
        return z ^ (z >> 31)

    def below(self, n):
        return self.next() % n

    def choice(self, xs):
        return xs[self.below(len(xs))]

    def chance(self, num, den):
        return self.below(den) < num

    def fork(self, tag):
        r = Rng(0)
        r.s = (self.s ^ (hash_str(tag) * 0xD6E8FEB86659FD93)) & MASK
        r.next()
        return r


def hash_str(s):
    h = 1469598103934665603
    for c in s.encode():
        h = ((h ^ c) * 1099511628211) & MASK
    return h


def hx(b):
    return b.hex() if b else "-"


def line(c):
    t = c[0]
    if t == "A":
        _, cid, kind, entry, cfg, cap, b = c
        return "A\t%s\t%s\t%d\t%d\t%d\t%s" % (cid, kind, entry, cfg, cap, hx(b))
    if t == "L":
        _, cid, kind, entry, cfg, cap, off, fill, b = c
        return "L\t%s\t%s\t%d\t%d\t%d\t%d\t%d\t%s" % (cid, kind, entry, cfg, cap, off, fill, hx(b))
    if t in ("H", "R"):
        _, cid, kind, cap, calls = c
        parts = [t, cid, kind, str(cap), str(len(calls))]
        for (e, cf, uc, b) in calls:
            parts += [str(e), str(cf), str(uc), hx(b)]
        return "\t".join(parts)
    if t == "S":
        _, cid, be, cls, al, b = c
        return "S\t%s\t%d\t%d\t%d\t%s" % (cid, be, cls, al, hx(b))
    if t == "K":
        _, cid, which, b = c
        return "K\t%s\t%s\t%s" % (cid, which, hx(b))
    if t == "U":
        return "U\t%s\t%s" % (c[1], hx(c[2]))
    raise ValueError(t)


# ------------------------------------------------------------------ alphabets
TCHARS = b"!#$%&'*+-.^_`|~0123456789ABCDEFGHIJKLMNOPQRSTUVWXYZabcdefghijklmnopqrstuvwxyz"
BOUNDARY = bytes([0, 1, 8, 9, 10, 11, 12, 13, 31, 32, 33, 34, 47, 48, 57, 58, 59, 64, 65, 70, 71, 90, 91, 96, 97,
                  102, 103, 122, 123, 126, 127, 128, 129, 159, 160, 191, 192, 193, 194, 223, 224, 237, 239, 240, 244,
                  245, 254, 255])
# 7 bits of ParserConfig, declaration order
CFG_SP_AFTER_NAME, CFG_MULTILINE, CFG_MS_REQ, CFG_MS_RESP, CFG_SP_BEFORE, CFG_IGN_RESP, CFG_IGN_REQ = 1, 2, 4, 8, 16, 32, 64
REQ_BITS = CFG_MS_REQ | CFG_SP_BEFORE | CFG_IGN_REQ
RESP_BITS = CFG_SP_AFTER_NAME | CFG_MULTILINE | CFG_MS_RESP | CFG_SP_BEFORE | CFG_IGN_RESP


def relevant_cfgs(kind):
    """configs that differ on bits the kind reads (others are covered by C15)"""
    bits = REQ_BITS if kind == "q" else RESP_BITS if kind == "p" else 0
    return [c for c in range(128) if c & ~bits == 0]


# ------------------------------------------------------------------ F-seed
def rust_bytes(lit):
    """contents of a Rust b"..." literal -> bytes"""
    out = bytearray()
    i = 0
    while i < len(lit):
        c = lit[i]
        if c == "\\":
            n = lit[i + 1]
            if n == "x":
                out.append(int(lit[i + 2:i + 4], 16))
                i += 4
                continue
            if n == "\n":               # line continuation
                i += 2
                while i < len(lit) and lit[i] in " \t\n":
                    i += 1
                continue
            out.append({"n": 10, "r": 13, "t": 9, "0": 0, "\\": 92, '"': 34, "'": 39}[n])
            i += 2
            continue
        out += c.encode()
        i += 1
    return bytes(out)


def seed_buffers(repo):
    """every byte-string literal of the crate's own tests, docs and README"""
    bufs = []
    seen = set()
    for rel in ("src/lib.rs", "tests/uri.rs", "README.md", "benches/parse.rs"):
        p = os.path.join(repo, rel)
        if not os.path.exists(p):
            continue
        src = open(p, encoding="utf-8", errors="replace").read()
        for m in re.finditer(r'b"((?:\\.|[^"\\])*)"', src, re.S):
            try:
                b = rust_bytes(m.group(1))
            except (KeyError, ValueError):
                continue
            if b not in seen and len(b) < 4096:
                seen.add(b)
                bufs.append(b)
    return bufs


# ------------------------------------------------------------------ F-gram
def rand_token(r, n):
    return bytes(r.choice(TCHARS) for _ in range(n))


def rand_len(r):
    """lengths drawn so that every length 0..100 and every block phase occurs"""
    k = r.below(10)
    if k < 5:
        return r.below(12)
    if k < 8:
        return r.below(40)
    return r.below(101)


def rand_target(r, n):
    out = bytearray()
    while len(out) < n:
        k = r.below(20)
        if k == 0 and n - len(out) >= 2:
            out += "é".encode()
        elif k == 1 and n - len(out) >= 3:
            out += "€".encode()
        elif k == 2 and n - len(out) >= 4:
            out += "😀".encode()
        else:
            out.append(33 + r.below(94))
    return bytes(out)


UTF8_SAMPLES = ["é".encode(), "€".encode(), "😀".encode(), "ß".encode(), "✓".encode()]


def rand_value(r, n, obs=True):
    out = bytearray()
    while len(out) < n:
        k = r.below(16)
        if k == 0:
            out.append(9)
        elif k == 1:
            out.append(32)
        elif k == 2 and obs:
            out.append(128 + r.below(128))
        elif k == 3 and obs and n - len(out) >= 4:
            out += r.choice(UTF8_SAMPLES)          # well-formed multi-byte text
        else:
            out.append(33 + r.below(94))
    return bytes(out)


def rand_eol(r):
    return b"\r\n" if r.chance(3, 4) else b"\n"


def rand_ows(r):
    k = r.below(8)
    if k < 4:
        return b" " if k < 3 else b""
    return bytes(r.choice(b" \t") for _ in range(r.below(4)))


def gram_headers(r, nh, lenient=0):
    """header block text and whether it uses lenient syntax"""
    out = bytearray()
    for i in range(nh):
        if lenient and r.chance(1, 6):
            k = r.below(6)
            if k == 0:
                out += b" " * (1 + r.below(2))            # space before (first) header
            elif k == 1:
                out += rand_token(r, 1 + r.below(5)) + rand_eol(r)   # missing colon
                continue
            elif k == 2:
                out += b":" + rand_value(r, r.below(5)) + rand_eol(r)  # empty name
                continue
            elif k == 3:
                out += rand_token(r, 1 + r.below(4)) + b" \t"[:1 + r.below(2)] + b":" + rand_value(r, r.below(6)) + rand_eol(r)
                continue
            elif k == 4:
                # folded value
                out += rand_token(r, 1 + r.below(6)) + b":" + rand_ows(r) + rand_value(r, r.below(8), False)
                for _ in range(1 + r.below(3)):
                    out += rand_eol(r) + r.choice([b" ", b"\t", b"  "]) + rand_value(r, r.below(8), False)
                out += rand_eol(r)
                continue
            else:
                out += rand_token(r, 1 + r.below(4)) + b": " + rand_value(r, r.below(5)) + bytes([r.choice(b"\x00\x01\x7f\x0b")]) + rand_eol(r)
                continue
        name = rand_token(r, max(1, rand_len(r)))
        v = rand_value(r, rand_len(r)).strip(b" \t")
        out += name + b":" + rand_ows(r) + v + rand_ows(r) + rand_eol(r)
    return bytes(out)


METHODS = [b"GET", b"POST", b"PUT", b"HEAD", b"OPTIONS", b"DELETE", b"PATCH", b"G", b"POSTX", b"GETT", b"POS", b"M-SEARCH"]


def gram_request(r, lenient=0, body=True):
    m = r.choice(METHODS) if r.chance(3, 4) else rand_token(r, 1 + r.below(10))
    t = rand_target(r, max(1, rand_len(r)))
    sp1 = b" " * (1 + (r.below(3) if lenient and r.chance(1, 3) else 0))
    sp2 = b" " * (1 + (r.below(3) if lenient and r.chance(1, 3) else 0))
    lead = b"".join(rand_eol(r) for _ in range(r.below(3))) if r.chance(1, 5) else b""
    out = lead + m + sp1 + t + sp2 + b"HTTP/1." + bytes([r.choice(b"01")]) + rand_eol(r)
    out += gram_headers(r, r.below(13) if r.chance(1, 3) else r.below(5), lenient)
    out += rand_eol(r)
    if body and r.chance(1, 2):
        out += rand_value(r, r.below(20)) + (b"\r\n\r\n" if r.chance(1, 4) else b"")
    return out


REASONS = [b"OK", b"Not Found", b"", b"Internal Server Error", b"Moved\tPermanently"]


def gram_response(r, lenient=0, body=True):
    lead = b"".join(rand_eol(r) for _ in range(r.below(3))) if r.chance(1, 5) else b""
    code = b"%03d" % r.below(1000)
    sp1 = b" " * (1 + (r.below(3) if lenient and r.chance(1, 3) else 0))
    out = lead + b"HTTP/1." + bytes([r.choice(b"01")]) + sp1 + code
    k = r.below(6)
    if k == 0:
        pass                                    # no reason, no SP
    else:
        out += b" " * (1 + (r.below(3) if lenient and r.chance(1, 3) else 0))
        if k == 1:
            out += rand_value(r, rand_len(r), obs=r.chance(1, 2))
        else:
            out += r.choice(REASONS)
    out += rand_eol(r)
    out += gram_headers(r, r.below(13) if r.chance(1, 3) else r.below(5), lenient)
    out += rand_eol(r)
    if body and r.chance(1, 2):
        out += rand_value(r, r.below(20))
    return out


def gram_block(r, lenient=0, body=True):
    out = gram_headers(r, r.below(13) if r.chance(1, 3) else r.below(5), lenient) + rand_eol(r)
    if r.chance(1, 2):
        out += rand_value(r, r.below(12))
    return out


def gram_chunk(r):
    nd = r.choice([0, 1, 1, 2, 3, 8, 15, 16, 16, 17, 18, 20]) if r.chance(1, 2) else 1 + r.below(16)
    ds = bytes(r.choice(b"0123456789abcdefABCDEF") for _ in range(nd))
    if r.chance(1, 4) and nd:
        ds = r.choice([b"0" * nd, b"f" * nd, b"F" * nd, b"1" + b"0" * (nd - 1), b"7" + b"f" * (nd - 1), b"8" + b"0" * (nd - 1)])
    out = ds + bytes(r.choice(b" \t") for _ in range(r.below(3) if r.chance(1, 3) else 0))
    if r.chance(1, 2):
        out += b";" + bytes(r.choice(BOUNDARY + b"abc=\"") for _ in range(r.below(30)))
    out += r.choice([b"\r\n", b"\r\n", b"\r\n", b"\n", b"\r", b"\rx", b""])
    if r.chance(1, 3):
        out += b"data\r\n"
    return out


GRAM = {"q": gram_request, "p": gram_response, "h": gram_block}


def mutate(r, b):
    b = bytearray(b)
    for _ in range(1 + r.below(3)):
        k = r.below(5)
        if not b:
            b.append(r.choice(BOUNDARY))
            continue
        i = r.below(len(b))
        if k == 0:
            b[i] = r.choice(BOUNDARY)
        elif k == 1:
            b.insert(i, r.choice(BOUNDARY))
        elif k == 2:
            del b[i]
        elif k == 3:
            b.insert(i, b[i])
        else:
            b[i] = r.choice(b" \t\r\n:\x00")
    return bytes(b)


# ------------------------------------------------------------------ F-exh
def exhaustive(alphabet, maxlen):
    """all strings over `alphabet` of length 0..maxlen, shortest first"""
    yield b""
    prev = [b""]
    for _ in range(maxlen):
        cur = []
        for p in prev:
            for a in alphabet:
                s = p + bytes([a])
                cur.append(s)
                yield s
        prev = cur


HEADER_CONTEXTS = [
    ("linestart", b""),
    ("afterhdr", b"A: b\r\n"),
    ("inname", b"Ab"),
    ("aftercolon", b"Ab:"),
    ("invalue", b"Ab: cd"),
    ("afterfold", b"Ab: cd\r\n e"),
    ("inignored", b"A b"),
]
START = {"q": b"GET / HTTP/1.1\r\n", "p": b"HTTP/1.1 200 OK\r\n", "h": b""}
