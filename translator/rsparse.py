"""rsparse.py -- a parser for the subset of Rust used by the control-flow functions of
httparse's src/lib.rs and src/macros.rs, with a macro_rules! expander.

Tokens come from rs2v.lex (hooks under #[cfg(httparse_verif)] already stripped).
Anything outside the subset raises TranslationError.

AST (tuples):
  expressions
    ("lit", n)  ("bool", b)  ("bstr", [bytes])  ("str", s)  ("path", "a::b")
    ("call", fn_expr, [args])  ("mcall", recv, name, [args])  ("field", e, name)
    ("index", e, i)  ("unop", op, e)  ("binop", op, l, r)  ("cast", e, ty)
    ("range", lo|None, hi|None, inclusive)  ("macro", name, toks)  ("tuple", [es])
    ("block", [stmts], tail|None)  ("if", cond, then, else|None)   cond may be ("letcond", pat, e)
    ("match", scrut, [(pat, guard|None, body)])
    ("loop", label|None, block)  ("while", label|None, cond, block)  ("for", pat, iter_expr, block)
    ("break", label|None, e|None)  ("continue", label|None)  ("return", e|None)
    ("struct", path, [(field, e)])  ("closure", [params], e)  ("try", e)  ("ref", mut, e)
  statements
    ("let", pat, ty|None, init|None)  ("expr", e)  ("assign", lhs, op, rhs)
    ("const", name, ty, e)  ("item", kind, name, toks)
  patterns
    ("pwild",) ("prest",) ("pbind", name, mut, sub|None) ("plit", n) ("prange", lo, hi)
    ("por", [pats]) ("ppath", path) ("pts", path, [pats]) ("ptuple", [pats]) ("pref", pat)
"""
from rs2v import TranslationError, byte_value, matching, norm

BINPREC = [
    ("||",), ("&&",), ("==", "!=", "<", ">", "<=", ">="), ("|",), ("^",), ("&",),
    ("<<", ">>"), ("+", "-"), ("*", "/", "%"),
]
ITEM_KW = ("struct", "impl", "fn", "enum", "use", "static", "type", "trait")


def unescape_bstr(v):
    body = v[2:-1]
    out, i = [], 0
    esc = {"n": 10, "r": 13, "t": 9, "0": 0, "\\": 92, '"': 34, "'": 39}
    while i < len(body):
        ch = body[i]
        if ch == "\\":
            n = body[i + 1]
            if n == "x":
                out.append(int(body[i + 2:i + 4], 16))
                i += 4
            elif n in esc:
                out.append(esc[n])
                i += 2
            else:
                raise TranslationError("byte string escape in " + v)
        else:
            out.append(ord(ch))
            i += 1
    return out


class Macro:
    def __init__(self, name, rules):
        self.name, self.rules = name, rules     # rules: [(pattern toks, body toks)]


def parse_macro_rules(toks, i):
    """toks[i] == macro_rules!, toks[i+1] == name, toks[i+2] == '{'.  returns (Macro, next index)"""
    name = toks[i + 1][1]
    j = i + 2
    close = {"{": "}", "(": ")", "[": "]"}
    if toks[j][1] not in close:
        raise TranslationError("macro_rules! %s: expected a delimiter" % name)
    k = matching(toks, j, toks[j][1], close[toks[j][1]])
    body = toks[j + 1:k]
    rules, p = [], 0
    while p < len(body):
        if body[p][1] not in close:
            raise TranslationError("macro_rules! %s: rule pattern" % name)
        q = matching(body, p, body[p][1], close[body[p][1]])
        pat = body[p + 1:q]
        if body[q + 1] != ("op", "=>"):
            raise TranslationError("macro_rules! %s: expected =>" % name)
        r = q + 2
        s = matching(body, r, body[r][1], close[body[r][1]])
        rules.append((pat, body[r + 1:s]))
        p = s + 1
        if p < len(body) and body[p] == ("op", ";"):
            p += 1
    end = k + 1
    return Macro(name, rules), end


def collect_macros(toks):
    macros = {}
    i = 0
    while i < len(toks) - 1:
        if toks[i] == ("ident", "macro_rules!"):
            m, i = parse_macro_rules(toks, i)
            macros[m.name] = m
        else:
            i += 1
    return macros


class RParser:
    def __init__(self, toks, macros=None):
        self.t = list(toks)
        self.i = 0
        self.macros = macros if macros is not None else {}

    # ---- token helpers
    def peek(self, k=0):
        j = self.i + k
        return self.t[j] if j < len(self.t) else (None, None)

    def at(self, v, k=0):
        return self.peek(k)[1] == v and self.peek(k)[0] in ("op", "ident")

    def eat(self, v=None):
        tok = self.peek()
        if tok[0] is None:
            raise TranslationError("unexpected end of tokens (wanted %r)" % (v,))
        if v is not None and tok[1] != v:
            raise TranslationError("expected %r, got %r near: %s" % (v, tok[1], norm(self.t[max(0, self.i - 8):self.i + 8])))
        self.i += 1
        return tok

    def done(self):
        return self.i >= len(self.t)

    def skip_attrs(self):
        while self.at("#") and self.at("[", 1):
            j = matching(self.t, self.i + 1, "[", "]")
            self.i = j + 1

    # ---- types (kept as text)
    def parse_type(self):
        start = self.i
        depth = 0
        if self.at("*"):
            self.eat()
            self.eat()          # mut / const
        while self.at("&"):
            self.eat()
            if self.peek()[0] == "lifetime":
                self.eat()
            if self.at("mut"):
                self.eat()
        if self.at("["):
            j = matching(self.t, self.i, "[", "]")
            self.i = j + 1
        elif self.at("("):
            j = matching(self.t, self.i, "(", ")")
            self.i = j + 1
        else:
            self.eat()              # first path segment
            while True:
                if self.at("::"):
                    self.eat()
                    if self.at("<"):
                        self._skip_generics()
                    else:
                        self.eat()
                elif self.at("<"):
                    self._skip_generics()
                else:
                    break
        return norm(self.t[start:self.i])

    def _skip_generics(self):
        depth = 0
        while True:
            v = self.peek()[1]
            if v == "<":
                depth += 1
            elif v == ">":
                depth -= 1
            elif v == ">>":
                depth -= 2
            elif v is None:
                raise TranslationError("unbalanced generics")
            self.i += 1
            if depth <= 0:
                return

    # ---- patterns
    def parse_pattern(self):
        alts = [self.parse_pattern1()]
        while self.at("|") and not self.at("?", 1):
            self.eat()
            alts.append(self.parse_pattern1())
        return alts[0] if len(alts) == 1 else ("por", alts)

    def _pat_lit(self):
        k, v = self.peek()
        if k in ("bytelit", "num"):
            self.eat()
            return byte_value((k, v))
        return None

    def parse_pattern1(self):
        k, v = self.peek()
        if v == "_" and k == "ident":
            self.eat()
            return ("pwild",)
        if v == "." and self.at(".", 1):
            self.eat(); self.eat()
            return ("prest",)
        if v == "&":
            self.eat()
            if self.at("mut"):
                self.eat()
            return ("pref", self.parse_pattern1())
        if v == "(":
            self.eat()
            ps = []
            while not self.at(")"):
                ps.append(self.parse_pattern())
                if self.at(","):
                    self.eat()
            self.eat(")")
            return ps[0] if len(ps) == 1 else ("ptuple", ps)
        lit = self._pat_lit()
        if lit is not None:
            if self.at("..="):
                self.eat()
                hi = self._pat_lit()
                if hi is None:
                    raise TranslationError("range pattern upper bound")
                return ("prange", lit, hi)
            return ("plit", lit)
        if k == "ident":
            mut = False
            if v == "mut":
                self.eat()
                mut = True
                k, v = self.peek()
            if v == "ref":
                raise TranslationError("ref patterns are outside the fragment")
            self.eat()
            name = v
            while self.at("::"):
                self.eat()
                name += "::" + self.eat()[1]
            if self.at("("):
                self.eat()
                ps = []
                while not self.at(")"):
                    ps.append(self.parse_pattern())
                    if self.at(","):
                        self.eat()
                self.eat(")")
                return ("pts", name, ps)
            if self.at("@"):
                self.eat()
                return ("pbind", name, mut, self.parse_pattern())
            if "::" in name or name[0].isupper():
                return ("ppath", name)
            return ("pbind", name, mut, None)
        raise TranslationError("pattern: unexpected %r" % (v,))

    # ---- expressions
    def parse_expr(self, no_struct=False):
        return self.parse_range(no_struct)

    def parse_range(self, ns):
        if self.at(".") and self.at(".", 1):
            self.eat(); self.eat()
            hi = None if self._expr_end() else self.parse_bin(0, ns)
            return ("range", None, hi, False)
        l = self.parse_bin(0, ns)
        if self.at("..="):
            self.eat()
            return ("range", l, self.parse_bin(0, ns), True)
        if self.at(".") and self.at(".", 1):
            self.eat(); self.eat()
            hi = None if self._expr_end() else self.parse_bin(0, ns)
            return ("range", l, hi, False)
        return l

    def _expr_end(self):
        return self.peek()[1] in (")", "]", "}", ",", ";", None)

    def parse_bin(self, level, ns):
        if level == len(BINPREC):
            return self.parse_cast(ns)
        l = self.parse_bin(level + 1, ns)
        while self.peek()[0] == "op" and self.peek()[1] in BINPREC[level]:
            if self.peek()[1] == "|" and self.at("?", 1):
                break
            op = self.eat()[1]
            r = self.parse_bin(level + 1, ns)
            l = ("binop", op, l, r)
        return l

    def parse_cast(self, ns):
        e = self.parse_unary(ns)
        while self.at("as"):
            self.eat()
            e = ("cast", e, self.parse_type())
        return e

    def parse_unary(self, ns):
        if self.peek()[0] == "op" and self.peek()[1] in ("!", "-", "*"):
            op = self.eat()[1]
            return ("unop", op, self.parse_unary(ns))
        if self.at("&") or self.at("&&"):
            n = 2 if self.at("&&") else 1
            self.eat()
            mut = False
            if self.at("mut"):
                self.eat()
                mut = True
            e = ("ref", mut, self.parse_unary(ns))
            if n == 2:
                e = ("ref", False, e)
            return e
        return self.parse_postfix(ns)

    def parse_args(self):
        self.eat("(")
        a = []
        while not self.at(")"):
            a.append(self.parse_expr())
            if self.at(","):
                self.eat()
        self.eat(")")
        return a

    def parse_postfix(self, ns):
        e = self.parse_primary(ns)
        while True:
            if self.at(".") and not self.at(".", 1):
                self.eat()
                k, name = self.eat()
                if k == "num":
                    e = ("field", e, name)
                    continue
                if self.at("::"):
                    self.eat()
                    self._skip_generics()
                if self.at("("):
                    e = ("mcall", e, name, self.parse_args())
                else:
                    e = ("field", e, name)
            elif self.at("["):
                self.eat()
                idx = self.parse_expr()
                self.eat("]")
                e = ("index", e, idx)
            elif self.at("("):
                e = ("call", e, self.parse_args())
            elif self.at("?"):
                self.eat()
                e = ("try", e)
            else:
                return e

    def parse_block(self):
        self.eat("{")
        b = self.parse_block_body("}")
        self.eat("}")
        return b

    def parse_primary(self, ns):
        self.skip_attrs()
        k, v = self.peek()
        if k in ("num", "bytelit"):
            self.eat()
            return ("lit", byte_value((k, v)))
        if k == "bytestr":
            self.eat()
            return ("bstr", unescape_bstr(v))
        if k == "str":
            self.eat()
            return ("str", v[1:-1])
        if k == "lifetime":
            lab = self.eat()[1]
            self.eat(":")
            e = self.parse_primary(ns)
            if e[0] not in ("loop", "while"):
                raise TranslationError("label on a non-loop")
            return (e[0], lab) + e[2:]
        if v == "(" and k == "op":
            self.eat()
            if self.at(")"):
                self.eat()
                return ("tuple", [])
            e = self.parse_expr()
            if self.at(","):
                es = [e]
                while self.at(","):
                    self.eat()
                    if self.at(")"):
                        break
                    es.append(self.parse_expr())
                self.eat(")")
                return ("tuple", es)
            self.eat(")")
            return ("paren", e)
        if v == "{" and k == "op":
            return self.parse_block()
        if v == "|" and k == "op":
            self.eat()
            params = []
            while not self.at("|"):
                params.append(self.parse_pattern1())
                if self.at(","):
                    self.eat()
            self.eat("|")
            return ("closure", params, self.parse_expr())
        if k != "ident":
            raise TranslationError("unexpected token %r near: %s" % (v, norm(self.t[max(0, self.i - 6):self.i + 6])))
        if v == "unsafe":
            self.eat()
            return self.parse_block()
        if v == "if":
            return self.parse_if()
        if v == "match":
            self.eat()
            scrut = self.parse_expr(no_struct=True)
            self.eat("{")
            arms = []
            while not self.at("}"):
                self.skip_attrs()
                pat = self.parse_pattern()
                guard = None
                if self.at("if"):
                    self.eat()
                    guard = self.parse_expr(no_struct=True)
                self.eat("=>")
                body = self.parse_expr()
                if self.peek()[0] == "op" and self.peek()[1] in ("=", "+=", "-=", "*="):
                    op = self.eat()[1]
                    body = ("block", [("assign", body, op, self.parse_expr())], None)
                arms.append((pat, guard, body))
                if self.at(","):
                    self.eat()
            self.eat("}")
            return ("match", scrut, arms)
        if v == "loop":
            self.eat()
            return ("loop", None, self.parse_block())
        if v == "while":
            self.eat()
            cond = self.parse_cond()
            return ("while", None, cond, self.parse_block())
        if v == "for":
            self.eat()
            pat = self.parse_pattern()
            self.eat("in")
            it = self.parse_expr(no_struct=True)
            return ("for", pat, it, self.parse_block())
        if v == "break":
            self.eat()
            lab = self.eat()[1] if self.peek()[0] == "lifetime" else None
            val = None if self._expr_end() else self.parse_expr()
            return ("break", lab, val)
        if v == "continue":
            self.eat()
            lab = self.eat()[1] if self.peek()[0] == "lifetime" else None
            return ("continue", lab)
        if v == "return":
            self.eat()
            val = None if self._expr_end() else self.parse_expr()
            return ("return", val)
        if v == "true" or v == "false":
            self.eat()
            return ("bool", v == "true")
        if v.endswith("!"):
            return self.parse_macro_call()
        # path
        self.eat()
        name = v
        while self.at("::"):
            self.eat()
            if self.at("<"):
                self._skip_generics()
            else:
                name += "::" + self.eat()[1]
        if self.at("{") and not ns and (name[0].isupper() or "::" in name):
            self.eat()
            fields = []
            while not self.at("}"):
                f = self.eat()[1]
                if self.at(":"):
                    self.eat()
                    fields.append((f, self.parse_expr()))
                else:
                    fields.append((f, ("path", f)))
                if self.at(","):
                    self.eat()
            self.eat("}")
            return ("struct", name, fields)
        return ("path", name)

    def parse_cond(self):
        if self.at("let"):
            self.eat()
            pat = self.parse_pattern()
            self.eat("=")
            return ("letcond", pat, self.parse_expr(no_struct=True))
        return self.parse_expr(no_struct=True)

    def parse_if(self):
        self.eat("if")
        cond = self.parse_cond()
        then = self.parse_block()
        els = None
        if self.at("else"):
            self.eat()
            els = self.parse_if() if self.at("if") else self.parse_block()
        return ("if", cond, then, els)

    def parse_macro_call(self):
        name = self.eat()[1][:-1]
        close = {"{": "}", "(": ")", "[": "]"}
        o = self.peek()[1]
        if o not in close:
            raise TranslationError("macro call %s!: delimiter" % name)
        j = matching(self.t, self.i, o, close[o])
        inner = self.t[self.i + 1:j]
        self.i = j + 1
        if name in self.macros:
            return expand_macro(self.macros[name], inner, self.macros)
        return ("macro", name, inner)

    # ---- statements
    def parse_block_body(self, closer):
        stmts, tail = [], None
        while not self.done() and not self.at(closer):
            self.skip_attrs()
            if self.at(";"):
                self.eat()
                continue
            k, v = self.peek()
            if v == "let" and k == "ident":
                self.eat()
                pat = self.parse_pattern()
                ty = None
                if self.at(":"):
                    self.eat()
                    ty = self.parse_type()
                init = None
                if self.at("="):
                    self.eat()
                    init = self.parse_expr()
                self.eat(";")
                stmts.append(("let", pat, ty, init))
                continue
            if v == "const" and k == "ident":
                self.eat()
                name = self.eat()[1]
                self.eat(":")
                ty = self.parse_type()
                self.eat("=")
                e = self.parse_expr()
                self.eat(";")
                stmts.append(("const", name, ty, e))
                continue
            if v == "macro_rules!" and k == "ident":
                m, self.i = parse_macro_rules(self.t, self.i)
                self.macros = dict(self.macros)
                self.macros[m.name] = m
                stmts.append(("item", "macro_rules", m.name, []))
                continue
            if k == "ident" and v in ITEM_KW:
                start = self.i
                name = self.peek(1)[1]
                while not self.at("{") and not self.at(";"):
                    self.i += 1
                if self.at("{"):
                    self.i = matching(self.t, self.i, "{", "}") + 1
                else:
                    self.i += 1
                stmts.append(("item", v, name, self.t[start:self.i]))
                continue
            e = self.parse_expr()
            if self.peek()[0] == "op" and self.peek()[1] in ("=", "+=", "-=", "*=", "|=", "&="):
                op = self.eat()[1]
                rhs = self.parse_expr()
                if not self.done() and not self.at(closer):
                    self.eat(";")
                stmts.append(("assign", e, op, rhs))
                continue
            if self.at(";"):
                self.eat()
                stmts.append(("expr", e))
            elif self.done() or self.at(closer):
                tail = e
            elif e[0] in ("if", "match", "loop", "while", "block", "for"):
                stmts.append(("expr", e))
            else:
                raise TranslationError("statement not terminated near: " + norm(self.t[max(0, self.i - 8):self.i + 8]))
        return ("block", stmts, tail)


# ---------------------------------------------------------------- macro expansion
def _match_rule(pat, inv, macros):
    """match invocation tokens against one macro pattern; returns {name: (frag, toks)} or None"""
    caps = {}
    p = q = 0
    while p < len(pat):
        if pat[p] == ("op", "$") and p + 3 < len(pat) + 1 and pat[p + 2] == ("op", ":"):
            name, frag = pat[p + 1][1], pat[p + 3][1]
            p += 4
            if q >= len(inv):
                return None
            if frag in ("ident", "lifetime"):
                if inv[q][0] != frag:
                    return None
                caps[name] = (frag, [inv[q]])
                q += 1
            elif frag in ("expr", "pat"):
                sub = RParser(inv[q:], macros)
                try:
                    sub.parse_expr() if frag == "expr" else sub.parse_pattern()
                except TranslationError:
                    return None
                caps[name] = (frag, inv[q:q + sub.i])
                q += sub.i
            else:
                raise TranslationError("macro fragment kind " + frag)
        else:
            if q >= len(inv) or inv[q] != pat[p]:
                return None
            p += 1
            q += 1
    return caps if q == len(inv) else None


def expand_macro(m, inv, macros, depth=0):
    if depth > 8:
        raise TranslationError("macro recursion in " + m.name)
    for pat, body in m.rules:
        if any(t == ("op", "$") and i + 1 < len(pat) and pat[i + 1] == ("op", "(") for i, t in enumerate(pat)):
            continue    # repetition rules (byte_map!) are handled by rs2v
        caps = _match_rule(pat, inv, macros)
        if caps is None:
            continue
        out = []
        i = 0
        while i < len(body):
            if body[i] == ("op", "$") and i + 1 < len(body) and body[i + 1][1] in caps:
                frag, toks = caps[body[i + 1][1]]
                if frag == "expr" and len(toks) > 1:
                    out += [("op", "(")] + toks + [("op", ")")]
                else:
                    out += toks
                i += 2
            else:
                out.append(body[i])
                i += 1
        sub = RParser(out, macros)
        blk = sub.parse_block_body(None)
        if not sub.done():
            raise TranslationError("macro %s!: trailing tokens after expansion" % m.name)
        return ("mexp", m.name, blk)
    raise TranslationError("no rule of %s! matches: %s" % (m.name, norm(inv)))


def find_fn(toks, name, nth=0):
    """(header tokens, body tokens) of the nth `fn name`"""
    seen = 0
    for i in range(len(toks) - 1):
        if toks[i] == ("ident", "fn") and toks[i + 1] == ("ident", name):
            if seen == nth:
                j = i
                depth = 0
                while not (toks[j] == ("op", "{") and depth == 0):
                    if toks[j][1] in ("(", "[", "<"):
                        depth += 1
                    elif toks[j][1] in (")", "]", ">"):
                        depth -= 1
                    elif toks[j][1] == ">>":
                        depth -= 2
                    j += 1
                k = matching(toks, j, "{", "}")
                return toks[i:j], toks[j + 1:k]
            seen += 1
    raise TranslationError("fn %s (#%d) not found" % (name, nth))
