"""iter2v.py -- G10: translate the methods of `Bytes` (src/iter.rs) into Gallina over the pointer-level
monad of coq/Ptr.v.  Proofs/TieIter.v proves each of them equal, through the representation function,
to the hand-written operation of Cursor.v.

Accepted fragment: field reads/writes of `self` (start, end, cursor), `let`, `if/else`, `*p`, `p.add(n)`,
`p.sub(n)`, `a as usize - b as usize`, `<  <=  ==`, calls of other translated methods on `self`,
`slice_from_ptr_range`, `core::slice::from_raw_parts`, `Some/None`, struct literal in `new`;
`debug_assert!` is skipped (it states the precondition that the checked pointer operations enforce);
`self.as_ref().get(..n)?.try_into().ok()` (peek_n) is a pinned shape.  Anything else: TranslationError."""
from rs2v import TranslationError, norm
import rsparse

FIELDS = ("start", "end", "cursor")


class IterTr:
    def __init__(self, name, params):
        self.name = name
        self.params = params
        self.n = 0
        self.depth = 0
        self.scope = [dict((p, p) for p in params)]

    def sym(self, b="t"):
        self.n += 1
        return "%s%d" % (b, self.n)

    def look(self, name):
        for sc in reversed(self.scope):
            if name in sc:
                return sc[name]
        raise TranslationError("%s: unknown name %s" % (self.name, name))

    # returns code for: evaluate e, continue with k(term)
    def ev(self, e, k):
        kd = e[0]
        if kd == "paren":
            return self.ev(e[1], k)
        if kd == "lit":
            return k("%d" % e[1])
        if kd == "path":
            if e[1] == "None":
                return k("None")
            return k(self.look(e[1]))
        if kd == "field" and e[1] == ("path", "self") and e[2] in FIELDS:
            s = self.sym("s")
            return "%s <- qget ;;; " % s + k("(ps_%s %s)" % (e[2], s))
        if kd == "cast":
            return self.ev(e[1], k)            # pointer <-> usize: addresses are nat
        if kd == "unop" and e[1] == "*":
            return self.ev(e[2], lambda p: self.bindq("q_deref %s" % p, k))
        if kd == "ref":
            return self.ev(e[2], k)
        if kd == "binop":
            op = e[1]
            if op == "-":
                return self.ev(e[2], lambda a: self.ev(e[3], lambda b: self.bindq("q_usub %s %s" % (a, b), k)))
            cmpf = {"<": "Nat.ltb %s %s", "<=": "Nat.leb %s %s", "==": "Nat.eqb %s %s",
                    ">=": "Nat.leb %s %s", ">": "Nat.ltb %s %s"}
            if op in cmpf:
                swap = op in (">=", ">")
                return self.ev(e[2], lambda a: self.ev(e[3], lambda b:
                               k("(" + cmpf[op] % ((b, a) if swap else (a, b)) + ")")))
            raise TranslationError("%s: operator %s" % (self.name, op))
        if kd == "mcall":
            recv, m, args = e[1], e[2], e[3]
            if m in ("add", "sub") and len(args) == 1:
                return self.ev(recv, lambda p: self.ev(args[0], lambda n: self.bindq("q_%s %s %s" % (m, p, n), k)))
            if recv == ("path", "self") and m in METHODS:
                def go(i, acc):
                    if i == len(args):
                        return self.bindq("i_%s %s" % (m, " ".join(acc)), k)
                    return self.ev(args[i], lambda t: go(i + 1, acc + [t]))
                return go(0, [])
            raise TranslationError("%s: method call %s" % (self.name, m))
        if kd == "call" and e[1][0] == "path":
            f = e[1][1]
            if f == "Some":
                return self.ev(e[2][0], lambda t: k("(Some %s)" % t))
            if f == "core::slice::from_raw_parts":
                return self.ev(e[2][0], lambda a: self.ev(e[2][1], lambda b: self.bindq("q_raw_parts %s %s" % (a, b), k)))
            hd = helper(f)
            if hd is not None and len(hd[0]) == len(e[2]) and f != self.name and self.depth < 4:
                # a private free function of iter.rs (slice_from_ptr_range, or any helper a refactoring extracts):
                # its body is evaluated in place with the parameters bound to the argument values
                names, blk = hd
                def go(i, acc):
                    if i == len(names):
                        self.scope.append(dict(zip(names, acc)))
                        self.depth += 1
                        try:
                            return self.stmts(blk[1], blk[2], lambda t: (self.scope.pop(), setattr(self, "depth", self.depth - 1), k(t))[2])
                        except TranslationError:
                            self.scope.pop()
                            self.depth -= 1
                            raise
                    return self.ev(e[2][i], lambda t: go(i + 1, acc + [t]))
                return go(0, [])
            raise TranslationError("%s: call %s" % (self.name, f))
        if kd == "block":
            return self.block(e, k)
        if kd == "if":
            if e[3] is None:
                raise TranslationError("%s: if without else" % self.name)
            c0 = e[1]
            while c0[0] == "paren":
                c0 = c0[1]
            if c0[0] == "unop" and c0[1] == "!":
                # `if !c { A } else { B }` is `if c { B } else { A }`
                return self.ev(("if", c0[2], e[3], e[2]), k)
            a = self.ev(e[2], lambda t: "qret %s" % t)
            b = self.ev(e[3], lambda t: "qret %s" % t)
            x = self.sym()
            return self.ev(e[1], lambda c: "%s <- (if %s then (%s) else (%s)) ;;; " % (x, c, a, b) + k(x))
        if kd == "struct" and e[1] == "Bytes":
            d = dict(e[2])
            def go(i, acc):
                if i == 3:
                    return "qput (mkpst %s %s %s) ;;;; " % tuple(acc) + k("tt")
                return self.ev(d[("start", "end", "cursor")[i]], lambda t: go(i + 1, acc + [t]))
            return go(0, [])
        raise TranslationError("%s: expression outside the fragment: %s" % (self.name, repr(e)[:100]))

    def bindq(self, call, k):
        x = self.sym()
        return "%s <- %s ;;; " % (x, call) + k(x)

    def block(self, b, k):
        self.scope.append({})
        try:
            return self.stmts(b[1], b[2], k)
        finally:
            self.scope.pop()

    def stmts(self, ss, tail, k):
        if not ss:
            return k("tt") if tail is None else self.ev(tail, k)
        s, rest = ss[0], ss[1:]
        nxt = lambda: self.stmts(rest, tail, k)
        if s[0] == "let":
            name = s[1][1]
            def kk(t):
                self.scope[-1][name] = t
                return nxt()
            return self.ev(s[3], kk)
        if s[0] == "assign" and s[2] == "=" and s[1][0] == "field" and s[1][1] == ("path", "self") and s[1][2] in FIELDS:
            fld = s[1][2]
            def kk(t):
                st = self.sym("s")
                vals = ["(ps_%s %s)" % (f, st) if f != fld else t for f in FIELDS]
                return "%s <- qget ;;; qput (mkpst %s %s %s) ;;;; " % (st, vals[0], vals[1], vals[2]) + nxt()
            return self.ev(s[3], kk)
        if s[0] == "expr":
            e = s[1]
            if e[0] == "macro" and e[1] == "debug_assert":
                return nxt()
            if e[0] == "if" and e[3] is None and e[2][0] == "block" and e[2][2] is None and len(e[2][1]) == 1 \
                    and e[2][1][0][0] == "expr" and e[2][1][0][1][0] == "return" and e[2][1][0][1][1] is not None:
                # `if c { return X; } rest`  is  `if c { X } else { rest }`
                return self.ev(("if", e[1], ("block", [], e[2][1][0][1][1]), ("block", list(rest), tail)), k)
            return self.ev(e, lambda t: nxt())
        raise TranslationError("%s: statement %s" % (self.name, s[0]))


_TOKS = []
_HELPERS = {}


def helper(name):
    """(parameter names, body block) of a free function `fn name(a: T, ..)` of iter.rs without `return`, or None"""
    if name in _HELPERS:
        return _HELPERS[name]
    _HELPERS[name] = None
    if "::" in name:
        return None
    try:
        hdr, body = rsparse.find_fn(_TOKS, name, 0)
    except TranslationError:
        return None
    i = next(j for j, t in enumerate(hdr) if t == ("op", "("))
    j = rsparse.matching(hdr, i, "(", ")")
    params, depth, cur = [], 0, []
    for t in hdr[i + 1:j]:
        if t[1] in ("(", "[", "<"):
            depth += 1
        elif t[1] in (")", "]", ">"):
            depth -= 1
        if t == ("op", ",") and depth == 0:
            params.append(cur)
            cur = []
        else:
            cur.append(t)
    if cur:
        params.append(cur)
    names = []
    for pt in params:
        pt = [t for t in pt if t != ("ident", "mut")]
        if len(pt) < 3 or pt[0][0] != "ident" or pt[1] != ("op", ":") or pt[0][1] == "self" or pt[0] == ("op", "&"):
            return None
        names.append(pt[0][1])
    p = rsparse.RParser(body, {})
    blk = p.parse_block_body(None)
    if not p.done() or "('return'" in repr(blk):
        return None
    _HELPERS[name] = (names, blk)
    return _HELPERS[name]


METHODS = {}        # name -> (params, return coq type)
ORDER = [("pos", [], "nat"), ("peek", [], "(option N)"),
         ("peek_ahead", ["n"], "(option N)"), ("len", [], "nat"), ("is_empty", [], "bool"), ("commit", [], "unit"),
         ("advance", ["n"], "unit"), ("bump", [], "unit"), ("as_ref", [], "(nat * nat)"), ("slice", [], "(nat * nat)"),
         ("slice_skip", ["skip"], "(nat * nat)"), ("advance_and_commit", ["n"], "unit"), ("next", [], "(option N)")]
PEEK_N = "self . as_ref ( ) . get ( . . n ) ? . try_into ( ) . ok ( )"

HEADER = """(* GENERATED by translator/iter2v.py from /repo/src/iter.rs -- do not edit.
   One definition per method of `Bytes`, over the pointer-level monad of Ptr.v. *)
From Coq Require Import List NArith Bool Arith.
From HV Require Import Cursor Ptr.
Import ListNotations.
Local Open Scope ptr_scope.

"""


def generate(toks):
    out = [HEADER]
    errors = []
    _TOKS[:] = toks
    _HELPERS.clear()
    for name, params, rty in ORDER:
        METHODS[name] = (params, rty)
    for name, params, rty in ORDER:
        try:
            nth = 0
            hdr, body = rsparse.find_fn(toks, name, nth)
            p = rsparse.RParser(body, {})
            ast = p.parse_block_body(None)
            if not p.done():
                raise TranslationError("trailing tokens")
            src_params = {"end_": "end"}
            tr = IterTr(name, [])
            for q in params:
                tr.scope[0][src_params.get(q, q)] = q
            code = tr.stmts(ast[1], ast[2], lambda t: "qret %s" % t)
            args = "".join(" (%s : nat)" % q for q in params)
            out.append("(* fn %s *)\nDefinition i_%s%s : Q %s :=\n  %s.\n" % (name, name, args, rty, code))
        except (TranslationError, IndexError, KeyError, TypeError, ValueError, AttributeError) as ex:
            errors.append("G10 %s: %s" % (name, ex))
            out.append("(* fn %s: TRANSLATION FAILED: %s *)\nDefinition i_%s : unit := tt.\n" % (name, str(ex).replace("*)", "* )"), name))
    # new: struct literal
    try:
        hdr, body = rsparse.find_fn(toks, "new", 0)
        p = rsparse.RParser(body, {})
        ast = p.parse_block_body(None)
        tr = IterTr("new", [])
        tr.scope[0]["slice"] = "slice"
        # slice.as_ptr() / slice.len(): the (pointer, length) pair handed in
        def ev_new(e, k, base=tr.ev):
            if e[0] == "mcall" and e[1] == ("path", "slice") and e[2] == "as_ptr":
                return k("(fst slice)")
            if e[0] == "mcall" and e[1] == ("path", "slice") and e[2] == "len":
                return k("(snd slice)")
            if e[0] == "path" and e[1] == "core::marker::PhantomData":
                return k("tt")
            return base(e, k)
        tr.ev = ev_new
        code = tr.stmts(ast[1], ast[2], lambda t: "qret %s" % t)
        out.append("(* fn new *)\nDefinition i_new (slice : nat * nat) : Q unit :=\n  %s.\n" % code)
    except (TranslationError, IndexError, KeyError, TypeError, ValueError, AttributeError) as ex:
        errors.append("G10 new: %s" % ex)
        out.append("(* fn new: TRANSLATION FAILED: %s *)\nDefinition i_new : unit := tt.\n" % str(ex).replace("*)", "* )"))
    # peek_n: pinned shape
    try:
        hdr, body = rsparse.find_fn(toks, "peek_n", 0)
        if norm(body) != PEEK_N:
            raise TranslationError("peek_n body changed: " + norm(body))
        out.append("(* fn peek_n: `self.as_ref().get(..n)?.try_into().ok()` -- the first n bytes of as_ref() when it has that many *)\n"
                   "Definition i_peek_n (n : nat) : Q (option (nat * nat)) :=\n"
                   "  r <- i_as_ref ;;; qret (if Nat.leb n (snd r) then Some (fst r, n) else None).\n")
    except (TranslationError, IndexError) as ex:
        errors.append("G10 peek_n: %s" % ex)
        out.append("Definition i_peek_n : unit := tt.\n")
    return "\n".join(out), errors


if __name__ == "__main__":
    import sys
    import rs2v
    repo = sys.argv[1] if len(sys.argv) > 1 else "/repo"
    t, errs = generate(rs2v.lex(open(repo + "/src/iter.rs").read()))
    sys.stdout.write(t)
    for e in errs:
        sys.stderr.write(e + "\n")
