"""lib2v.py -- G9: translate the control-flow functions of src/lib.rs (with the macros of
src/macros.rs expanded from their definitions) into Gallina over the monad of coq/Imp.v.

Output: coq/Generated/Lib.v.  Proofs/LibTie*.v prove each generated function equal to the
hand-written definition of Model.v / Api.v, so the theorems about the model are theorems
about what the source says today.  Anything outside the accepted fragment raises
TranslationError (the generated file then does not compile and the proof obligations that
depend on it are reported broken).

Semantics fixed by this translator (trusted, see DESIGN.md 10):
  * integers: u8/u16/u32/u64/i32 -> N, usize -> nat; every + - * emits an overflow /
    underflow guard (`iguard`) for the width rustc infers (default i32), so arithmetic that can
    leave its type is a Fault in the generated code;
  * `as` casts that widen are the identity; narrowing casts are rejected;
  * `bytes.<op>()` are the cursor operations of Cursor.v; `unsafe` blocks are transparent;
  * `let mut` locals live in a per-function record; `break 'l v` / `continue 'l` / `return`
    are control signals of Imp.v; `while c {..}` is `loop { if !c {break}; .. }`.
"""
import re
from rs2v import TranslationError, norm, matching
import rsparse

INT_W = {"u8": 8, "u16": 16, "u32": 32, "u64": 64, "i32": 31, "int": 31}
RET = object()        # sentinel continuation: "return the value from this computation"


def coq_ty(t):
    if t in INT_W:
        return "N"
    return {"usize": "nat", "bool": "bool", "slice": "sl", "arr": "list N", "unit": "unit",
            "optu8": "option N", "optarr": "option (list N)", "optslice": "option sl",
            "optusize": "option nat", "res_usize": "rval nat", "optn": "option N",
            "slots": "list slot"}[t]


def default_of(t):
    if t in INT_W:
        return "0%N"
    return {"usize": "O", "bool": "false", "slice": "(Ext [])", "arr": "[]", "unit": "tt",
            "optu8": "None", "optarr": "None", "optslice": "None", "optusize": "None",
            "res_usize": "RPartial", "optn": "None", "slots": "[]"}[t]


def is_int(t):
    return t in INT_W or t == "usize"


def nlit(n, t):
    return "%d" % n if t == "usize" else "%d%%N" % n


COQ_KW = {"end", "match", "with", "in", "fix", "fun", "let", "return", "as", "at", "if", "then", "else",
          "forall", "exists", "Type", "Prop", "Set", "where", "using", "for", "cofix", "is", "P", "I", "E", "fuel",
          "dbg", "next", "peek", "slice", "pos", "ret", "bind", "fail", "part", "advance", "bump", "peek_n", "peek_ahead",
          "slice_skip", "remaining", "expect", "space", "newline", "rest", "pre", "take", "drop", "shift", "commit",
          "length", "first_bad", "load_block", "rest_bytes", "fallback", "W"}


def cid(name):
    return name + "_" if name in COQ_KW else name


def _unparen(e):
    while e[0] == "paren":
        e = e[1]
    return e


FLIP = {"==": "!=", "!=": "==", "<": ">=", ">=": "<", ">": "<=", "<=": ">"}


def nnf_not(e):
    """the expression equal to `!e` with the negation pushed one level inward, or None when `e` is atomic"""
    e = _unparen(e)
    if e[0] == "unop" and e[1] == "!":
        return _unparen(e[2])
    if as_range_test(e) is not None:
        return None             # `!(lo <= x && x <= hi)` stays the negation of a range test
    if e[0] == "binop" and e[1] in ("&&", "||"):
        return ("binop", "||" if e[1] == "&&" else "&&", ("unop", "!", e[2]), ("unop", "!", e[3]))
    if e[0] == "binop" and e[1] in FLIP:
        return ("binop", FLIP[e[1]], e[2], e[3])
    return None


def as_range_test(e):
    """`lo <= x && x <= hi` (also written with >=) with literal bounds -> (lo, hi, x), else None"""
    if e[0] != "binop" or e[1] != "&&":
        return None
    def le(c):
        c = _unparen(c)
        if c[0] == "binop" and c[1] == "<=":
            return c[2], c[3]
        if c[0] == "binop" and c[1] == ">=":
            return c[3], c[2]
        return None
    a, b = le(e[2]), le(e[3])
    if a is None or b is None:
        return None
    islit = lambda t: t[0] in ("lit", "byte", "char")
    if islit(a[0]) and islit(b[1]) and a[1] == b[0] and not islit(a[1]):
        return a[0], b[1], a[1]
    if islit(b[0]) and islit(a[1]) and b[1] == a[0] and not islit(b[1]):
        return b[0], a[1], b[1]
    return None


class FnTr:
    """translator of one function body"""

    def __init__(self, g, name, coqname, ast, rty, params, brk_ty="unit", self_fields=None):
        self.g = g
        self.name, self.coqname, self.ast = name, coqname, ast
        self.rty = rty                          # simplified Rust type of the Complete payload
        self.brk_ty = brk_ty
        self.muts = []                          # [(field, ty)]
        self.scopes = [dict(params)]            # name -> (kind, coqname, ty)
        self.scopes[0].setdefault("bytes", ("cursor", "bytes", "cursor"))
        self.labels = []                        # [(label, id)]
        self.nlab = 0
        self.fresh = 0
        self.calls = set()
        self.lit_ty = ["int"]
        self.made_cursor = False
        if self_fields:
            for f, ty in self_fields:
                self.muts.append(("self_" + f, ty))
                self.scopes[0]["self." + f] = ("mut", "self_" + f, ty)

    # ---------------------------------------------------------- names
    def gensym(self, base="t"):
        self.fresh += 1
        return "%s%d" % (base, self.fresh)

    def lookup(self, name):
        for sc in reversed(self.scopes):
            if name in sc:
                return sc[name]
        if name in self.g.consts:
            return self.g.consts[name]
        raise TranslationError("%s: unknown name %s" % (self.name, name))

    def declare_mut(self, name, ty):
        # positional field names (m1, m2, ... in declaration order): renaming a Rust local does not
        # change the generated text beyond this record, so the tie proofs survive it
        self.nmut = getattr(self, "nmut", 0) + 1
        field = "m%d" % self.nmut
        self.mut_src = getattr(self, "mut_src", []) + [(field, name)]
        self.muts.append((field, ty))
        self.scopes[-1][name] = ("mut", field, ty)
        return field

    def set_mut_ty(self, field, ty):
        self.muts = [(f, ty if f == field else t) for f, t in self.muts]
        for sc in self.scopes:
            for k, v in list(sc.items()):
                if v[0] == "mut" and v[1] == field:
                    sc[k] = ("mut", field, ty)

    def L(self):
        return "L_" + self.coqname

    # ---------------------------------------------------------- locals placeholder
    def resolve(self, *terms):
        """replace the locals placeholder in pure terms; returns (prefix, terms)"""
        if any("§" in t for t in terms):
            l = self.gensym("l")
            return "%s <~ iget ;; " % l, [t.replace("§", l) for t in terms]
        return "", list(terms)

    def setter(self, field, term):
        return "iset (set_%s_%s (%s))" % (self.coqname, field, term)

    # ---------------------------------------------------------- pure expressions
    def pure(self, e):
        """(term, ty, guards) if e is pure, else None"""
        k = e[0]
        if k == "paren":
            return self.pure(e[1])
        if k == "lit":
            return ("%d" % e[1], "lit", [])
        if k == "bool":
            return ("true" if e[1] else "false", "bool", [])
        if k == "bstr":
            return ("[%s]" % "; ".join("%d%%N" % b for b in e[1]), "arr", [])
        if k == "str":
            if e[1] == "":
                return ("(Ext [])", "slice", [])
            raise TranslationError("string literal")
        if k == "path":
            name = e[1]
            if name == "u64::MAX":
                return ("18446744073709551615%N", "u64", [])
            kind, cn, ty = self.lookup(name)
            if kind == "mut":
                return ("(%s §)" % cn, ty, [])
            return (cn, ty, [])
        if k == "field":
            if e[1][0] == "path":
                full = e[1][1] + "." + e[2]
                for sc in reversed(self.scopes):
                    if full in sc:
                        kind, cn, ty = sc[full]
                        if kind == "mut":
                            return ("(%s §)" % cn, ty, [])
                        return (cn, ty, [])
                base = self.lookup(e[1][1])
                if base[2].startswith("struct:"):
                    fty = self.g.struct_fields[base[2][7:]].get(e[2])
                    if fty is None:
                        raise TranslationError("unknown field %s.%s" % (e[1][1], e[2]))
                    return ("(%s %s)" % (self.g.field_coq(base[2][7:], e[2]), base[1]), fty, [])
            raise TranslationError("field access " + repr(e)[:80])
        if k == "unop":
            if e[1] == "!":
                # negations are pushed inward first (De Morgan, flipped comparisons, `!!x`), so that `!(a || b)` and
                # `!a && !b`, `!(a == b)` and `a != b`, `!(a < b)` and `a >= b` generate one and the same term
                n = nnf_not(e[2])
                if n is not None:
                    return self.pure(n)
                m = _unparen(e[2])
                if m[0] == "macro" and m[1] == "matches":
                    # `!matches!(x, a | b | ..)` with literal alternatives is `x != a && x != b && ..`
                    sub = rsparse.RParser(list(m[2]), self.g.macros)
                    scrut = sub.parse_expr()
                    sub.eat(",")
                    pat = sub.parse_pattern()
                    alts = pat[1] if pat[0] == "por" else [pat]
                    if sub.done() and all(q[0] == "plit" for q in alts):
                        conj = None
                        for q in alts:
                            t = ("binop", "!=", scrut, ("lit", q[1]))
                            conj = t if conj is None else ("binop", "&&", conj, t)
                        return self.pure(conj)
                p = self.pure(e[2])
                if p is None:
                    return None
                return ("(negb %s)" % p[0], "bool", p[2])
            if e[1] == "*":
                return self.pure(e[2])
            return None
        if k == "ref":
            if e[2][0] == "index" and e[2][2][0] == "range" and not e[2][2][3]:
                base, lo, hi = self.pure(e[2][1]), self.pure(e[2][2][1]), self.pure(e[2][2][2])
                if base is None or lo is None or hi is None:
                    return None
                if base[1] != "slice" or lo[0] != "0":
                    raise TranslationError("slice index shape")
                h = self.fixlit(hi[0], hi[1], "usize")
                return ("(sl_prefix %s %s)" % (base[0], h), "slice",
                        base[2] + hi[2] + ["IDX:(Nat.leb %s (length (sl_bytes %s)))" % (h, base[0])])
            return self.pure(e[2])
        if k == "cast":
            p = self.pure(e[1])
            if p is None:
                return None
            t, ty, g = p
            to = e[2]
            if to not in INT_W and to != "usize":
                raise TranslationError("cast to " + to)
            if ty == "lit":
                return (t, to if to != "usize" else "usize", g)
            if ty == "usize" or to == "usize":
                if ty == to:
                    return p
                raise TranslationError("cast between usize and %s" % ty)
            if INT_W[to] < INT_W[ty]:
                raise TranslationError("narrowing cast %s -> %s" % (ty, to))
            return (t, to, g)
        if k == "binop":
            op = e[1]
            rng = as_range_test(e)
            if rng is not None:
                # `lo <= x && x <= hi` is `(lo..=hi).contains(&x)`
                lo, hi, x = self.pure(rng[0]), self.pure(rng[1]), self.pure(rng[2])
                if lo is not None and hi is not None and x is not None and not x[2] and x[1] in ("u8", "lit"):
                    return ("(in_rng %s %s %s)" % (self.fixlit(lo[0], lo[1], "u8"), self.fixlit(hi[0], hi[1], "u8"), x[0]),
                            "bool", [])
            a, b = self.pure(e[2]), self.pure(e[3])
            if a is None or b is None:
                return None
            (ta, tya, ga), (tb, tyb, gb) = a, b
            if op in ("&&", "||"):
                if op == "&&":
                    gb = ["(negb %s || %s)" % (ta, x) for x in gb]
                    return ("(%s && %s)" % (ta, tb), "bool", ga + gb)
                gb = ["(%s || %s)" % (ta, x) for x in gb]
                return ("(%s || %s)" % (ta, tb), "bool", ga + gb)
            ty = self.unify(tya, tyb, e)
            ta, tb = self.fixlit(ta, tya, ty), self.fixlit(tb, tyb, ty)
            mod = "Nat" if ty == "usize" else "N"
            if op in ("==", "!=", "<", "<=", ">", ">="):
                if ty == "bool":
                    if op == "==":
                        return ("(Bool.eqb %s %s)" % (ta, tb), "bool", ga + gb)
                    raise TranslationError("bool comparison")
                if ty == "optu8":
                    raise TranslationError("option comparison must be `e == Some(lit)`")
                f = {"==": "%s.eqb %s %s", "!=": "negb (%s.eqb %s %s)", "<": "%s.ltb %s %s",
                     "<=": "%s.leb %s %s"}
                if op == ">":
                    s = "%s.ltb %s %s" % (mod, tb, ta)
                elif op == ">=":
                    s = "%s.leb %s %s" % (mod, tb, ta)
                else:
                    if op in ("==", "!="):
                        # equality is symmetric: canonical operand order (a literal goes right, otherwise by text), so
                        # `0 == count` / `end == start` generate what `count == 0` / `start == end` generate
                        def _islit(t):
                            return re.fullmatch(r"\(?\d+(%N)?\)?|true|false", t) is not None
                        la, lb = _islit(ta), _islit(tb)
                        if (la and not lb) or (la == lb and tb.lower() < ta.lower()):
                            ta, tb = tb, ta
                    s = f[op] % (mod, ta, tb)
                return ("(%s)" % s, "bool", ga + gb)
            if op in ("+", "-", "*", "/"):
                if not is_int(ty):
                    raise TranslationError("arithmetic on " + ty)
                cop = {"+": "add", "-": "sub", "*": "mul", "/": "div"}[op]
                term = "(%s.%s %s %s)" % (mod, cop, ta, tb)
                g = ga + gb
                if op == "-":
                    g = g + ["(%s.leb %s %s)" % (mod, tb, ta)]
                elif op == "/":
                    g = g + ["(negb (%s.eqb %s %s))" % (mod, tb, nlit(0, ty))]
                elif ty != "usize":
                    g = g + ["(fits %d %s)" % (INT_W[ty], term)]
                # usize + and * : nat is unbounded; offsets are bounded by the buffer length, which
                # fits in usize because the buffer exists (stated in DESIGN.md)
                return (term, ty, g)
            raise TranslationError("operator " + op)
        if k == "mcall" and e[2] == "rposition" and e[1][0] == "mcall" and e[1][2] == "iter" and len(e[3]) == 1 \
                and e[3][0][0] == "closure":
            base = self.pure(e[1][1])
            clo = e[3][0]
            if base is None or base[1] != "slice" or len(clo[1]) != 1 or clo[1][0][0] != "pbind":
                raise TranslationError("rposition shape")
            v = cid(clo[1][0][1])
            self.scopes.append({clo[1][0][1]: ("imm", v, "u8")})
            try:
                body = self.pure(clo[2])
            finally:
                self.scopes.pop()
            if body is None or body[2]:
                raise TranslationError("rposition closure")
            return ("(rposition (fun %s => %s) (sl_bytes %s))" % (v, body[0], base[0]), "optusize", base[2])
        if k == "mcall" and e[2] == "len" and not e[3] and e[1][0] == "path" and not self.is_cursor(e[1][1]) \
                and self.lookup(e[1][1])[2] == "buffer":
            return ("(length %s)" % self.lookup(e[1][1])[1], "usize", [])
        if k == "mcall" and e[2] == "is_empty" and not e[3] and e[1][0] == "path" and not self.is_cursor(e[1][1]) \
                and self.lookup(e[1][1])[2] == "buffer":
            return ("(Nat.eqb (length %s) O)" % self.lookup(e[1][1])[1], "bool", [])
        if k == "mcall":
            # (lo..=hi).contains(&b)
            if e[2] == "contains" and e[1][0] in ("paren", "range"):
                r = e[1][1] if e[1][0] == "paren" else e[1]
                if r[0] == "range" and r[3]:
                    lo, hi, b = self.pure(r[1]), self.pure(r[2]), self.pure(e[3][0])
                    return ("(in_rng %s %s %s)" % (self.fixlit(lo[0], lo[1], "u8"),
                                                   self.fixlit(hi[0], hi[1], "u8"), b[0]), "bool", b[2])
            return None
        if k == "call":
            f = e[1][1] if e[1][0] == "path" else None
            if f in ("str::from_utf8_unchecked",):
                return self.pure(e[2][0])
            if f == "str::from_utf8":
                p = self.pure(e[2][0])
                if p is None:
                    return None
                return ("(from_utf8 %s)" % p[0], "optslice", p[2])
            if f in ("u64::from_ne_bytes",):
                return self.pure(e[2][0])
            if f == "assume_init_slice" and self.g.pinned_ok("assume_init_slice"):
                return self.pure(e[2][0])
            if f in self.g.class_preds:
                p = self.pure(e[2][0])
                if p is None:
                    return None
                return ("(%s E %s)" % (self.g.class_preds[f], p[0]), "bool", p[2])
            if f == "Err" and e[2][0][0] == "path":
                return ("(RErr %s)" % self.g.err_name(e[2][0]), "res_usize", [])
            if f == "Ok" and e[2][0][0] == "call" and e[2][0][1] == ("path", "Status::Complete"):
                p = self.pure(e[2][0][2][0])
                if p is None:
                    return None
                if p[1] != "usize":
                    raise TranslationError("Ok(Status::Complete(%s)) as a value" % p[1])
                return ("(RComplete %s)" % p[0], "res_usize", p[2])
            if f == "Some":
                p = self.pure(e[2][0])
                if p is None:
                    return None
                oty = {"slice": "optslice", "u8": "optu8", "u16": "optn", "usize": "optusize",
                       "lit": "optn"}.get(p[1])
                if oty is None:
                    raise TranslationError("Some(%s)" % p[1])
                return ("(Some %s)" % self.fixlit(p[0], p[1], "u8"), oty, p[2])
            return None
        if k == "macro" and e[1] == "matches":
            # matches!(expr, pattern): the boolean the pattern's test is (no bindings, no guard)
            sub = rsparse.RParser(list(e[2]), self.g.macros)
            scrut = sub.parse_expr()
            sub.eat(",")
            pat = sub.parse_pattern()
            if not sub.done():
                raise TranslationError("matches! with a guard")
            ps = self.pure(scrut)
            if ps is None or ps[1] not in ("u8", "usize", "int"):
                raise TranslationError("matches! scrutinee")
            t, b = self.pat_test(pat, ps[0], ps[1])
            if b:
                raise TranslationError("matches! with bindings")
            return (t if t is not None else "true", "bool", ps[2])
        if k == "macro" and e[1] == "cfg":
            if norm(e[2]) == "debug_assertions":
                return ("dbg", "bool", [])
            raise TranslationError("cfg!(%s)" % norm(e[2]))
        if k == "tuple":
            ps = [self.pure(x) for x in e[1]]
            if any(p is None for p in ps):
                return None
            if not ps:
                return ("tt", "unit", [])
            return ("(%s)" % ", ".join(p[0] for p in ps), "tuple", sum((p[2] for p in ps), []))
        return None

    def unify(self, a, b, e):
        if a == "lit":
            return "int" if b == "lit" else b
        if b == "lit":
            return a
        if a == b:
            return a
        if a == "int" and b in INT_W:
            return b
        if b == "int" and a in INT_W:
            return a
        raise TranslationError("%s: type mismatch %s vs %s in %s" % (self.name, a, b, repr(e)[:100]))

    def fixlit(self, term, ty, to):
        if ty == "lit":
            return nlit(int(term), to)
        return term

    # ---------------------------------------------------------- effectful expressions
    def bytes_prim(self, e):
        """cursor primitive: (P-term, ty) or None"""
        if e[0] == "mcall" and e[1][0] == "path" and self.is_cursor(e[1][1]):
            m, args = e[2], e[3]
            def natarg(i):
                p = self.pure(args[i])
                if p is None or p[2]:
                    raise TranslationError("cursor op argument")
                if p[1] == "lit":
                    return p[0]
                if p[1] == "usize":
                    return p[0]
                raise TranslationError("cursor op argument type " + p[1])
            if m == "next" and not args:
                return ("next_opt", "optu8")
            if m == "peek" and not args:
                return ("peek", "optu8")
            if m == "peek_n":
                return ("(peek_n %s)" % natarg(0), "optarr")
            if m == "peek_ahead":
                return ("(peek_ahead %s)" % natarg(0), "optu8")
            if m == "advance":
                return ("(advance %s)" % natarg(0), "unit")
            if m == "bump" and not args:
                return ("bump", "unit")
            if m == "slice" and not args:
                return ("slice", "slice")
            if m == "slice_skip":
                return ("(slice_skip %s)" % natarg(0), "slice")
            if m == "pos" and not args:
                return ("pos", "usize")
            if m == "len" and not args:
                return ("remaining", "usize")
            raise TranslationError("Bytes method " + m)
        if e[0] == "mcall" and e[2] == "len" and not e[3] and e[1][0] == "mcall" and e[1][2] == "as_ref" and not e[1][3] \
                and e[1][1][0] == "path" and self.is_cursor(e[1][1][1]):
            return ("remaining", "usize")
        if e[0] == "cast" and e[2] == "usize" and e[1][0] == "mcall" and e[1][2] == "as_ptr" and not e[1][3] \
                and e[1][1][0] == "mcall" and e[1][1][2] == "as_ref" and not e[1][1][3] \
                and e[1][1][1][0] == "path" and self.is_cursor(e[1][1][1][1]):
            return ("addr", "usize")
        if e[0] == "call" and e[1][0] == "path" and e[1][1] in self.g.scanners and len(e[2]) == 1 \
                and self.is_bytes_arg(e[2][0]):
            return ("(%s E fuel)" % self.g.scanners[e[1][1]], "unit")
        return None

    def is_cursor(self, name):
        try:
            return self.lookup(name)[0] == "cursor"
        except TranslationError:
            return False

    def is_bytes_arg(self, a):
        if a[0] == "ref" and a[1]:
            a = a[2]
        return a[0] == "path" and self.is_cursor(a[1])

    def ev(self, e, k):
        """code computing e then continuing with k(term, ty); k is RET for `iret`"""
        def cont(term, ty):
            if k is RET:
                if ty == "lit":
                    term = nlit(int(term), self.lit_ty[-1])
                pre, (t,) = self.resolve(term)
                return pre + "iret %s" % t
            return k(term, ty)
        sp = self.g.special_expr(self, e, cont) if hasattr(self.g, "special_expr") else None
        if sp is not None:
            return sp
        p = self.pure(e)
        if p is not None:
            term, ty, guards = p
            if guards:
                pre, gs = self.resolve(*guards)
                ar = [g for g in gs if not g.startswith("IDX:")]
                ix = [g[4:] for g in gs if g.startswith("IDX:")]
                code = pre
                if ar:
                    code += "iguard (%s) ;;~ " % " && ".join(ar)
                if ix:
                    code += "iguard_idx (%s) ;;~ " % " && ".join(ix)
                return code + cont(term, ty)
            return cont(term, ty)
        kd = e[0]
        if kd == "paren":
            return self.ev(e[1], k)
        if kd == "mexp":
            return self.ev(e[2], k)
        if kd == "mcall" and e[1][0] == "path" and self.is_cursor(e[1][1]) and len(e[3]) == 1 \
                and e[3][0][0] != "rawterm" and self.pure(e[3][0]) is None:
            return self.ev(e[3][0], lambda t, ty: self.ev(("mcall", e[1], e[2], [("rawterm", t, ty)]), k))
        bp = self.bytes_prim(e)
        if bp is not None:
            term, ty = bp
            if ty == "unit":
                return "ilift %s ;;~ " % term + cont("tt", "unit")
            x = self.gensym()
            return "%s <~ ilift %s ;; " % (x, term) + cont(x, ty)
        if kd == "cast":
            return self.ev(e[1], lambda t, ty: cont(*self._cast(t, ty, e[2])))
        if kd in ("ref",):
            return self.ev(e[2], k)
        if kd == "unop" and e[1] == "*":
            return self.ev(e[2], k)
        if kd == "call" and e[1][0] == "path":
            f = e[1][1]
            if f in ("str::from_utf8_unchecked", "u64::from_ne_bytes", "str::from_utf8", "Some") or f in self.g.class_preds:
                return self.ev(e[2][0], lambda t, ty: self.ev(("call", e[1], [("rawterm", t, ty)]), k))
        if kd == "rawterm":
            return cont(e[1], e[2])
        if kd == "block":
            return self.block(e, k)
        if kd == "if":
            return self.ev_if(e, k)
        if kd == "match":
            return self.ev_match(e, k)
        if kd in ("loop", "while"):
            return self.ev_loop(e, k)
        if kd == "return":
            if e[1] is None and self.rty == "unit":
                return "ithrow (Ret tt)"
            return self.result(e[1], "return")
        if kd == "break":
            lab = self.find_label(e[1])
            if e[2] is None:
                return "ithrow (Brk %d %s)" % (lab, self.g.brk_default(self.brk_ty))
            return self.ev(e[2], lambda t, ty: self._throw_brk(lab, t))
        if kd == "continue":
            return "ithrow (Cnt %d)" % self.find_label(e[1])
        if kd == "binop":
            op = e[1]
            pa = self.pure(e[2])
            if op in ("&&", "||"):
                raise TranslationError("%s: effectful operand of %s" % (self.name, op))
            if pa is not None and "§" in pa[0]:
                raise TranslationError("%s: local read before an effectful operand" % self.name)
            return self.ev(e[2], lambda ta, tya: self.ev(e[3], lambda tb, tyb:
                            self.ev(("binop", op, ("rawterm", ta, tya), ("rawterm", tb, tyb)), k)))
        if kd == "tuple":
            def go(i, acc):
                if i == len(e[1]):
                    return cont("(%s)" % ", ".join(acc), "tuple")
                def one(t, ty):
                    if ty == "lit":
                        raise TranslationError("untyped literal in a tuple")
                    return go(i + 1, acc + [t])
                return self.ev(e[1][i], one)
            return go(0, [])
        if kd == "try":
            raise TranslationError("`?` outside the complete! shape")
        inl = self.g.try_inline(e, self.name)
        if inl is not None:
            return self.ev(inl, k)
        raise TranslationError("%s: expression outside the fragment: %s" % (self.name, repr(e)[:120]))

    def _cast(self, t, ty, to):
        if to == "usize" or ty == "usize":
            if ty == to:
                return (t, ty)
            raise TranslationError("cast usize")
        if ty != "lit" and INT_W[to] < INT_W[ty]:
            raise TranslationError("narrowing cast")
        return (t, to)

    def _throw_brk(self, lab, t):
        pre, (t,) = self.resolve(t)
        return pre + "ithrow (Brk %d %s)" % (lab, t)

    def find_label(self, lab):
        if not self.labels:
            raise TranslationError("break/continue outside a loop")
        if lab is None:
            return self.labels[-1][1]
        for l, i in reversed(self.labels):
            if l == lab:
                return i
        raise TranslationError("unknown label " + lab)

    # pure() needs to see rawterm
    _pure0 = pure

    def pure(self, e):   # noqa: F811
        if e[0] == "rawterm":
            return (e[1], e[2], [])
        if e[0] == "mexp":
            return None
        return self._pure0(e)

    # ---------------------------------------------------------- diverging?
    def diverges(self, e):
        k = e[0]
        if k in ("return", "break", "continue", "rawresult"):
            return True
        if k in ("paren",):
            return self.diverges(e[1])
        if k == "mexp":
            return self.diverges(e[2])
        if k == "block":
            for s in e[1]:
                if s[0] == "expr" and self.diverges(s[1]):
                    return True
            return e[2] is not None and self.diverges(e[2])
        if k == "if":
            return e[3] is not None and self.diverges(e[2]) and self.diverges(e[3])
        if k == "match":
            return all(self.diverges(b) for _, _, b in e[2])
        if k == "loop":
            return not self._has_break(e[2], e[1], True)
        return False

    def _has_break(self, e, label, inner_ok):
        """does e contain a break that targets the loop labelled `label` (or unlabelled, if
        not nested in another loop)?"""
        if not isinstance(e, tuple):
            return False
        if e and e[0] == "break":
            return (e[1] is None and inner_ok) or (label is not None and e[1] == label)
        if e and e[0] in ("loop", "while"):
            return any(self._has_break(x, label, False) for x in e[1:])
        for x in e:
            if isinstance(x, tuple) and self._has_break(x, label, inner_ok):
                return True
            if isinstance(x, list):
                for y in x:
                    if isinstance(y, tuple) and self._has_break(y, label, inner_ok):
                        return True
        return False

    # ---------------------------------------------------------- blocks and statements
    def block(self, b, k):
        self.scopes.append({})
        try:
            return self.stmts(b[1], b[2], k)
        finally:
            self.scopes.pop()

    def stmts(self, ss, tail, k):
        if not ss:
            if tail is None:
                return "iret tt" if k is RET else k("tt", "unit")
            return self.ev(tail, k)
        s, rest = ss[0], ss[1:]
        nxt = lambda: self.stmts(rest, tail, k)
        kd = s[0]
        if kd == "item":
            self.g.check_item(self, s)
            return nxt()
        if kd == "const":
            p = self.pure(s[3])
            if p is None:
                raise TranslationError("const initialiser")
            ty = {"u64": "u64", "usize": "usize", "u8": "u8"}.get(s[2])
            if ty is None:
                if s[2].startswith("["):
                    ty = "arr"
                else:
                    raise TranslationError("const type " + s[2])
            if p[1] == "lit":
                term = nlit(int(p[0]), ty)
            else:
                term = p[0]
                if p[1] == "arr":
                    ty = "arr"
            self.scopes[-1][s[1]] = ("const", term, ty)
            return nxt()
        if kd == "let":
            return self.let(s, nxt)
        if kd == "assign":
            return self.assign(s, nxt)
        if kd == "expr":
            e = s[1]
            if self.diverges(e):
                return self.ev(e, lambda t, ty: "iret tt")
            code = self.ev(e, lambda t, ty: nxt())
            return code
        raise TranslationError("statement " + kd)

    def let(self, s, nxt):
        pat, ty_annot, init = s[1], s[2], s[3]
        if pat[0] != "pbind" or pat[3] is not None:
            raise TranslationError("let pattern")
        name, mut = pat[1], pat[2]
        special = self.g.special_let(self, s, nxt)
        if special is not None:
            return special
        if mut:
            if init is None:
                ty = self.g.mut_types.get((self.name, name))
                if ty is None:
                    raise TranslationError("%s: `let mut %s;` needs a type entry" % (self.name, name))
                self.declare_mut(name, ty)
                return nxt()

            def k(t, ty):
                if ty == "lit":
                    ty = self.g.mut_types.get((self.name, name), "int")
                    t = nlit(int(t), ty)
                field = self.declare_mut(name, ty)
                pre, (t,) = self.resolve(t)
                return pre + self.setter(field, t) + " ;;~ " + nxt()
            return self.ev(init, k)
        if init is None:
            raise TranslationError("let without initialiser")
        forced = self.g.let_types.get((self.name, name))

        def k(t, ty):
            if forced is not None and ty in ("lit", "int"):
                if ty == "lit":
                    t = nlit(int(t), forced)
                ty = forced
            if ty == "lit":
                ty = "int"
                t = nlit(int(t), ty)
            cn = cid(name)
            if re.fullmatch(r"[A-Za-z_][A-Za-z0-9_']*", t) and "§" not in t:
                if t != cn:
                    # rename by a Gallina let (keeps source names readable)
                    self.scopes[-1][name] = ("imm", cn, ty)
                    return "let %s := %s in " % (cn, t) + nxt()
                self.scopes[-1][name] = ("imm", cn, ty)
                return nxt()
            pre, (t,) = self.resolve(t)
            self.scopes[-1][name] = ("imm", cn, ty)
            return pre + "let %s := %s in " % (cn, t) + nxt()
        if forced is not None:
            self.lit_ty.append(forced)
            try:
                return self.ev(init, k)
            finally:
                self.lit_ty.pop()
        return self.ev(init, k)

    def assign(self, s, nxt):
        lhs, op, rhs = s[1], s[2], s[3]
        special = self.g.special_assign(self, s, nxt)
        if special is not None:
            return special
        if lhs[0] == "path":
            kind, field, ty = self.lookup(lhs[1])
        elif lhs[0] == "field" and lhs[1][0] == "path":
            kind, field, ty = self.lookup(lhs[1][1] + "." + lhs[2])
        else:
            raise TranslationError("assignment target")
        if kind != "mut":
            raise TranslationError("assignment to immutable " + repr(lhs))
        if op != "=":
            rhs = ("binop", op[0], lhs, rhs)
        if op == "=" and rhs == ("path", "None") and ty.startswith("opt"):
            return self.setter(field, "None") + " ;;~ " + nxt()

        def k(t, tyr):
            nonlocal ty
            if tyr == "lit":
                t = nlit(int(t), ty)
            elif ty == "int" and tyr in INT_W and tyr != "int":
                self.set_mut_ty(field, tyr)
                ty = tyr
            elif tyr != ty and not (tyr == "int" and ty in INT_W):
                raise TranslationError("%s: assigning %s to %s : %s" % (self.name, tyr, field, ty))
            pre, (t,) = self.resolve(t)
            return pre + self.setter(field, t) + " ;;~ " + nxt()
        if op != "=":
            # refine an undetermined integer local from the other operand first
            pr = self.pure(s[3])
            if ty == "int" and pr is not None and pr[1] in INT_W and pr[1] != "int":
                self.set_mut_ty(field, pr[1])
                ty = pr[1]
        return self.ev(rhs, k)

    # ---------------------------------------------------------- if / match / loops
    def cond_code(self, c, then_code, else_code):
        """`if c then .. else ..` where c is a condition expression (possibly `let`)"""
        if c[0] == "letcond":
            arms = [(c[1], None, ("rawcode", then_code)), (("pwild",), None, ("rawcode", else_code))]
            return self.ev_match(("match", c[2], arms), RET)
        return self.ev(c, lambda t, ty: self._if(t, then_code, else_code))

    def _if(self, t, a, b):
        pre, (t,) = self.resolve(t)
        return pre + "(if %s then (%s) else (%s))" % (t, a, b)

    def ev_if(self, e, k):
        cond, then, els = e[1], e[2], e[3]
        if cond[0] == "letcond":
            arms = [(cond[1], None, then), (("pwild",), None, els if els is not None else ("block", [], None))]
            code = self.ev_match(("match", cond[2], arms), RET)
            return self.join(code, e, k)
        a = self.ev(then, RET)
        b = self.ev(els, RET) if els is not None else "iret tt"
        code = self.cond_code(cond, a, b)
        return self.join(code, e, k)

    def join(self, code, e, k):
        """continue after a branching construct whose code returns its value"""
        if k is RET:
            return code
        if self.diverges(e):
            return code
        ty = self.ty_of(e)
        if ty == "unit":
            return "(%s) ;;~ " % code + k("tt", "unit")
        x = self.gensym()
        return "%s <~ (%s) ;; " % (x, code) + k(x, ty)

    def ty_of(self, e):
        """static type of a branching expression (only what the fragment needs)"""
        k = e[0]
        if k in ("paren",):
            return self.ty_of(e[1])
        if k == "mexp":
            return self.ty_of(e[2])
        if k == "rawcode":
            return "unit"
        if k == "block":
            if e[2] is None:
                return "unit"
            self.scopes.append({})
            try:
                for s in e[1]:
                    if s[0] == "let" and s[1][0] == "pbind":
                        try:
                            self.scopes[-1][s[1][1]] = ("imm", s[1][1], self.ty_of(s[3]) if s[3] else "int")
                        except TranslationError:
                            pass
                return self.ty_of(e[2])
            finally:
                self.scopes.pop()
        if k == "if":
            if e[3] is None:
                return "unit"
            for br in (e[2], e[3]):
                if not self.diverges(br):
                    self.scopes.append({})
                    try:
                        if e[1][0] == "letcond" and br is e[2]:
                            self.bind_pattern_types(e[1][1], e[1][2])
                        return self.ty_of(br)
                    finally:
                        self.scopes.pop()
            return "unit"
        if k == "match":
            sty = None
            for pat, _, b in e[2]:
                if not self.diverges(b):
                    self.scopes.append({})
                    try:
                        self.bind_pattern_types(pat, e[1])
                        return self.ty_of(b)
                    finally:
                        self.scopes.pop()
            return "unit"
        if k in ("loop", "while"):
            return self.brk_ty if self._has_break_value(e) else "unit"
        if k in ("return", "break", "continue"):
            return "unit"
        p = None
        try:
            p = self.pure(e)
        except TranslationError:
            pass
        if p is not None:
            return "int" if p[1] == "lit" else p[1]
        bp = self.bytes_prim(e)
        if bp is not None:
            return bp[1]
        if k == "binop":
            return self.ty_of(e[2])
        if k == "cast":
            return e[2]
        raise TranslationError("%s: cannot type %s" % (self.name, repr(e)[:100]))

    def _has_break_value(self, loop):
        """does the loop node have a `break <value>` that targets it?"""
        label = loop[1]

        def go(e, inner_ok):
            if isinstance(e, list):
                return any(go(y, inner_ok) for y in e)
            if not isinstance(e, tuple) or not e:
                return False
            if e[0] == "break":
                mine = (e[1] is None and inner_ok) or (label is not None and e[1] == label)
                return mine and e[2] is not None
            if e[0] in ("loop", "while"):
                return any(go(x, False) for x in e[1:])
            return any(go(x, inner_ok) for x in e if isinstance(x, (tuple, list)))
        return any(go(x, True) for x in loop[2:])

    def bind_pattern_types(self, pat, scrut):
        """declare the variables a pattern binds (types only) -- used by ty_of"""
        sty = None
        try:
            sty = self.ty_of(scrut)
        except TranslationError:
            return
        inner = {"optu8": "u8", "optarr": "arr", "optslice": "slice", "optusize": "usize"}.get(sty, sty)
        def go(p, ty):
            if p[0] == "pbind":
                self.scopes[-1][p[1]] = ("imm", p[1], ty)
                if p[3] is not None:
                    go(p[3], ty)
            elif p[0] == "pts":
                for q in p[2]:
                    go(q, inner)
            elif p[0] == "por":
                for q in p[1]:
                    go(q, ty)
        go(pat, sty)

    def pat_test(self, pat, s, sty):
        """(boolean test term or None for irrefutable, bindings [(name, term, ty)])"""
        k = pat[0]
        if k in ("pwild", "prest"):
            return (None, [])
        if k == "pbind":
            if pat[3] is None:
                return (None, [(pat[1], s, sty)])
            t, b = self.pat_test(pat[3], s, sty)
            return (t, [(pat[1], s, sty)] + b)
        if k == "plit":
            mod = "Nat" if sty == "usize" else "N"
            return ("(%s.eqb %s %s)" % (mod, s, nlit(pat[1], sty)), [])
        if k == "prange":
            return ("(in_rng %d%%N %d%%N %s)" % (pat[1], pat[2], s), [])
        if k == "por":
            ts = []
            for q in pat[1]:
                t, b = self.pat_test(q, s, sty)
                if b:
                    raise TranslationError("bindings in an or-pattern")
                if t is None:
                    return (None, [])
                ts.append(t)
            return ("(%s)" % " || ".join(ts), [])
        if k == "ppath":
            kind, cn, ty = self.lookup(pat[1])
            if kind != "const":
                raise TranslationError("path pattern " + pat[1])
            if ty == "arr":
                return ("(list_eqb %s %s)" % (s, cn), [])
            mod = "Nat" if ty == "usize" else "N"
            return ("(%s.eqb %s %s)" % (mod, s, cn), [])
        raise TranslationError("pattern " + repr(pat)[:80])

    def arm_body(self, body, binds):
        self.scopes.append({})
        try:
            lets = ""
            for name, term, ty in binds:
                self.scopes[-1][name] = ("imm", cid(name), ty)
                if cid(name) != term:
                    lets += "let %s := %s in " % (cid(name), term)
            if body[0] == "rawcode":
                return lets + body[1]
            return lets + self.ev(body, RET)
        finally:
            self.scopes.pop()

    def chain(self, arms, s, sty, fallthrough=None):
        """if-chain for arms tested against the scrutinee term s"""
        if not arms:
            if fallthrough is None:
                raise TranslationError("%s: match is not exhaustive in the fragment's eyes" % self.name)
            return fallthrough
        (pat, guard, body), rest = arms[0], arms[1:]
        test, binds = self.pat_test(pat, s, sty)
        if guard is not None and not binds:
            pg = self.pure(guard)
            if pg is not None and not pg[2]:
                test = pg[0] if test is None else "(%s && %s)" % (test, pg[0])
                guard = None
        code = self.arm_body_guarded(body, binds, guard, lambda: self.chain(rest, s, sty, fallthrough))
        if test is None:
            return code
        pre, (t,) = self.resolve(test)
        return pre + "(if %s then (%s) else (%s))" % (t, code, self.chain(rest, s, sty, fallthrough))

    def arm_body_guarded(self, body, binds, guard, rest):
        if guard is None:
            return self.arm_body(body, binds)
        self.scopes.append({})
        try:
            lets = ""
            for name, term, ty in binds:
                self.scopes[-1][name] = ("imm", cid(name), ty)
                if cid(name) != term:
                    lets += "let %s := %s in " % (cid(name), term)
            gcode = self.guard_code(guard, lambda t: self._if(t, self.arm_body(body, []), rest()))
            return lets + gcode
        finally:
            self.scopes.pop()

    def guard_code(self, g, k):
        # `unsafe { bytes.peek_ahead(4) } == Some(b' ')` and pure guards
        if g[0] == "binop" and g[1] == "==" and g[3][0] == "call" and g[3][1] == ("path", "Some") \
                and g[3][2][0][0] == "lit":
            lit = g[3][2][0][1]
            return self.ev(g[2], lambda t, ty: k("(opt_is %s %d%%N)" % (t, lit)))
        return self.ev(g, lambda t, ty: k(t))

    def ev_match(self, e, k):
        scrut, arms = e[1], e[2]
        # consecutive arms with the same guard and the same body are one arm with an or-pattern (so splitting
        # `A | B => body` into two arms, or merging two, generates the same text)
        merged = []
        for pat, guard, body in arms:
            if merged and merged[-1][1] == guard and merged[-1][2] == body and pat[0] not in ("pbind",) \
                    and merged[-1][0][0] not in ("pbind",) and "pbind" not in repr(pat) and "pbind" not in repr(merged[-1][0]):
                p0 = merged[-1][0]
                alts = (list(p0[1]) if p0[0] == "por" else [p0]) + (list(pat[1]) if pat[0] == "por" else [pat])
                merged[-1] = (("por", alts), guard, body)
            else:
                merged.append((pat, guard, body))
        if merged != list(arms):
            arms = merged
            e = (e[0], scrut, arms) + tuple(e[3:])
        special = self.g.special_match(self, e, k)
        if special is not None:
            return special

        def go(s, sty):
            if sty in ("optu8", "optarr", "optslice", "optusize"):
                inner = {"optu8": "u8", "optarr": "arr", "optslice": "slice", "optusize": "usize"}[sty]
                v = self.gensym("v")
                some_arms, none_code = [], None
                for pat, guard, body in arms:
                    if pat[0] == "por" and all(q[0] == "pts" and q[1] == "Some" for q in pat[1]):
                        pat = ("pts", "Some", [("por", [q[2][0] for q in pat[1]])])
                    if pat[0] == "pts" and pat[1] in ("Some", "Ok"):
                        some_arms.append((pat[2][0], guard, body))
                    elif (pat[0] == "ppath" and pat[1] == "None") or (pat[0] == "pts" and pat[1] == "Err"):
                        if none_code is None:
                            if guard is not None:
                                raise TranslationError("guard on None arm")
                            none_code = self.arm_body(body, [])
                    elif pat[0] in ("pwild",) or (pat[0] == "pbind" and pat[3] is None):
                        if guard is not None:
                            raise TranslationError("guard on a catch-all option arm")
                        if pat[0] == "pbind":
                            raise TranslationError("binding a whole option")
                        some_arms.append((("pwild",), None, body))
                        if none_code is None:
                            none_code = self.arm_body(body, [])
                    else:
                        raise TranslationError("option pattern " + repr(pat)[:80])
                if none_code is None:
                    raise TranslationError("%s: no arm for None" % self.name)
                pre, (s2,) = self.resolve(s)
                return pre + "match %s with Some %s => %s | None => %s end" % (
                    s2, v, self.chain(some_arms, v, inner), none_code)
            if sty == "lit":
                sty = "int"
            if is_int(sty) or sty == "arr":
                if "§" in s or not re.fullmatch(r"[A-Za-z_][A-Za-z0-9_']*", s):
                    v = self.gensym("v")
                    pre, (s2,) = self.resolve(s)
                    return pre + "let %s := %s in " % (v, s2) + self.chain(arms, v, sty)
                return self.chain(arms, s, sty)
            raise TranslationError("%s: match on %s" % (self.name, sty))
        code = self.ev(scrut, go)
        return self.join(code, e, k)

    def ev_loop(self, e, k):
        kind, label = e[0], e[1]
        self.nlab += 1
        lid = self.nlab
        self.labels.append((label, lid))
        try:
            if kind == "loop":
                body = self.ev(e[2], lambda t, ty: "iret tt")
            else:
                cond, blk = e[2], e[3]
                brk = "ithrow (Brk %d %s)" % (lid, self.g.brk_default(self.brk_ty))
                if cond[0] == "letcond":
                    arms = [(cond[1], None, blk), (("pwild",), None, ("rawcode", brk))]
                    body = self.ev_match(("match", cond[2], arms), lambda t, ty: "iret tt")
                else:
                    inner = self.ev(blk, lambda t, ty: "iret tt")
                    body = self.cond_code(cond, inner, brk)
        finally:
            self.labels.pop()
        code = "iloop fuel %d (%s)" % (lid, body)
        if kind == "loop" and self.diverges(e):
            return "(%s) ;;~ ifault Unreachable" % code
        if k is RET:
            if self.ty_of(e) == "unit" and self.brk_ty != "unit":
                return "(%s) ;;~ iret tt" % code
            return code
        if self.ty_of(e) == "unit":
            return "(%s) ;;~ " % code + k("tt", "unit")
        x = self.gensym()
        return "%s <~ (%s) ;; " % (x, code) + k(x, self.brk_ty)

    # ---------------------------------------------------------- results
    def result(self, e, mode):
        """e : Result<Status<T>> as the function result (tail) or the operand of `return`"""
        done = (lambda t: "iret %s" % t) if mode == "tail" else (lambda t: "ithrow (Ret %s)" % t)
        if e is None:
            if self.rty == "unit":
                return "iret tt" if mode == "tail" else "ithrow (Ret tt)"
            raise TranslationError("bare return")
        k = e[0]
        if k in ("paren",):
            return self.result(e[1], mode)
        if k == "mexp":
            return self.result(e[2], mode)
        if k == "call" and e[1][0] == "path":
            f = e[1][1]
            if f == "Ok":
                a = e[2][0]
                if a == ("path", "Status::Partial"):
                    return "ipart"
                if a[0] == "call" and a[1] == ("path", "Status::Complete"):
                    def fin(t, ty):
                        if ty == "lit":
                            t = nlit(int(t), self.rty if self.rty in INT_W or self.rty == "usize" else "int")
                        pre, (t2,) = self.resolve(t)
                        return pre + done(t2)
                    return self.ev(a[2][0], fin)
                raise TranslationError("Ok(..) shape")
            if f == "Err":
                return "ifail %s" % self.g.err_name(e[2][0])
            if f in self.g.fns and all(self.is_bytes_arg(a) for a in e[2]):
                self.calls.add(f)
                if mode == "tail":
                    return "ilift %s" % self.g.fns[f]
                x = self.gensym()
                return "%s <~ ilift %s ;; %s" % (x, self.g.fns[f], done(x))
        if k == "block":
            self.scopes.append({})
            try:
                return self.stmts_result(e[1], e[2], mode)
            finally:
                self.scopes.pop()
        if k == "if":
            if e[3] is None:
                raise TranslationError("if without else as a result")
            if e[1][0] == "letcond":
                arms = [(e[1][1], None, ("rawresult", e[2], mode)), (("pwild",), None, ("rawresult", e[3], mode))]
                return self.ev_match(("match", e[1][2], arms), RET)
            a = self.result(e[2], mode)
            b = self.result(e[3], mode)
            return self.cond_code(e[1], a, b)
        if k == "match":
            arms = [(p, g, ("rawresult", b, mode)) for p, g, b in e[2]]
            return self.ev_match(("match", e[1], arms), RET)
        if k == "loop":
            return self.ev_loop(e, RET)
        if k == "path":
            kind, cn, ty = self.lookup(e[1])
            if ty == "res_usize":
                pre, (t,) = self.resolve("(%s §)" % cn if kind == "mut" else cn)
                return pre + "ireturn %s" % t
        inl = self.g.try_inline(e, self.name)
        if inl is not None:
            return self.result(inl, mode)
        raise TranslationError("%s: result expression outside the fragment: %s" % (self.name, repr(e)[:120]))

    def result_arm(self, pat, scrut, body, mode):
        self.scopes.append({})
        try:
            self.bind_pattern_types(pat, scrut)
            return self.result(body, mode)
        finally:
            self.scopes.pop()

    def stmts_result(self, ss, tail, mode):
        if tail is None:
            if ss and ss[-1][0] == "expr" and self.diverges(ss[-1][1]):
                return self.stmts(ss, None, lambda t, ty: "iret tt")
            raise TranslationError("%s: result block without a tail" % self.name)
        # statements first, then the tail in result context
        marker = ("rawresult", tail, mode)
        return self.stmts(ss, marker, RET)

    _ev0 = ev

    def ev(self, e, k):    # noqa: F811
        if e[0] == "rawresult":
            return self.result(e[1], e[2])
        if e[0] == "rawcode":
            return e[1] if k is RET else "(%s) ;;~ " % e[1] + k("tt", "unit")
        return self._ev0(e, k)

    # ---------------------------------------------------------- whole function
    def translate(self):
        if self.rty == "unit" and self.ast[2] is not None \
                and not (self.ast[2][0] == "call" and self.ast[2][1] in (("path", "Ok"), ("path", "Err"))):
            return self.stmts(self.ast[1] + [("expr", self.ast[2])], None, lambda t, ty: "iret tt")
        body = self.stmts_result(self.ast[1], self.ast[2], "tail") if self.ast[2] is not None \
            else self.stmts(self.ast[1], None, lambda t, ty: "iret tt")
        return body


def _subst(node, m):
    """replace the paths named in m by the given expressions (helper inlining)"""
    if isinstance(node, list):
        return [_subst(x, m) for x in node]
    if isinstance(node, tuple):
        if len(node) == 2 and node[0] == "path" and node[1] in m:
            return m[node[1]]
        return tuple(_subst(x, m) for x in node)
    return node


def _strip_ptr(e):
    """the path under `&mut *( x as T )`-style pointer plumbing, or None"""
    while True:
        if e[0] == "paren":
            e = e[1]
        elif e[0] == "cast":
            e = e[1]
        elif e[0] == "ref":
            e = e[2]
        elif e[0] == "unop" and e[1] == "*":
            e = e[2]
        else:
            break
    return e if e[0] == "path" else None


class Gen:
    """per-crate state: function table, constants, special shapes"""

    def __init__(self, lib_toks, mac_toks):
        self.lib = lib_toks
        self.macros = rsparse.collect_macros(mac_toks)
        self.consts = {}
        self.fns = {}            # rust name -> coq term of type P _
        self.class_preds = {"is_method_token": "c_method", "is_header_name_token": "c_name",
                            "is_header_value_token": "c_value", "is_uri_token": "c_uri"}
        self.scanners = {"simd::match_uri_vectored": "s_uri",
                         "simd::match_header_value_vectored": "s_value",
                         "simd::match_header_name_vectored": "s_name"}
        self.mut_types = {("parse_headers_iter_uninit", "b"): "u8"}
        self.let_types = {("parse_headers_iter_uninit", "skip"): "usize"}
        self.struct_fields = {"ParserConfig": {x: "bool" for x in (
            "allow_spaces_after_header_name_in_responses", "allow_obsolete_multiline_headers_in_responses",
            "allow_multiple_spaces_in_request_line_delimiters", "allow_multiple_spaces_in_response_status_delimiters",
            "allow_space_before_first_header_name", "ignore_invalid_headers_in_responses",
            "ignore_invalid_headers_in_requests")}, "HeaderParserConfig": {
            "allow_spaces_after_header_name": "bool", "allow_obsolete_multiline_headers": "bool",
            "allow_space_before_first_header_name": "bool", "ignore_invalid_headers": "bool"}}
        self.fn_rty = {}
        self._helpers = {}
        self.core_of = {}
        self.out = []
        self.errors = []

    def field_coq(self, struct, f):
        if struct == "ParserConfig" and f == "allow_space_before_first_header_name":
            return "allow_space_before_first_header_name_cfg"
        return f

    PINNED = {
        "assume_init_slice": (0, "fn assume_init_slice < T > ( s : & mut [ MaybeUninit < T > ] ) -> & mut [ T ] { let s : * mut [ MaybeUninit < T > ] = s ; let s = s as * mut [ T ] ; & mut * s }"),
        "deinit_slice_mut": (0, "fn deinit_slice_mut < 'a , 'b , T > ( s : & 'a mut & 'b mut [ T ] ) -> & 'a mut & 'b mut [ MaybeUninit < T > ] { let s : * mut & mut [ T ] = s ; let s = s as * mut & mut [ MaybeUninit < T > ] ; & mut * s }"),
        "parse_headers_iter": (0, "fn parse_headers_iter < 'a > ( headers : & mut & mut [ Header < 'a > ] , bytes : & mut Bytes < 'a > , config : & HeaderParserConfig , ) -> Result < usize > { parse_headers_iter_uninit ( unsafe { deinit_slice_mut ( headers ) } , bytes , config , ) }"),
    }

    def pinned_ok(self, name):
        nth, want = self.PINNED[name]
        hdr, body = rsparse.find_fn(self.lib, name, nth)
        got = norm(hdr) + " { " + norm(body) + " }"
        if got != want:
            raise TranslationError("pinned helper %s changed:\n   got  %s\n   want %s" % (name, got, want))
        return True

    def err_name(self, e):
        while e[0] == "paren":
            e = e[1]
        if e[0] == "path":
            n = e[1]
            if n.startswith("Error::"):
                return n[7:]
            if n == "InvalidChunkSize":
                return n
        raise TranslationError("error value " + repr(e))

    def brk_default(self, ty):
        return default_of(ty)

    SHRINK_STRUCT = ("struct ShrinkOnDrop < 'r1 , 'r2 , 'a > { headers : & 'r1 mut & 'r2 mut [ MaybeUninit < Header < 'a >> ] , "
                     "num_headers : usize , }")
    SHRINK_DROP = ("impl Drop for ShrinkOnDrop < '_ , '_ , '_ > { fn drop ( & mut self ) { let headers = mem :: take ( self . headers ) ; "
                   "let headers = unsafe { headers . get_unchecked_mut ( . . self . num_headers ) } ; * self . headers = headers ; } }")

    def check_item(self, f, s):
        if s[1] == "macro_rules":
            return
        if f.name == "parse_headers_iter_uninit":
            # the drop guard: on every exit `headers` is shrunk to `num_headers` slots.  Modelled at the
            # call sites (Proofs/TieHeaders.v: run_headers) -- its text is pinned here.
            if s[1] == "struct" and norm(s[3]) == self.SHRINK_STRUCT:
                return
            if s[1] == "impl" and norm(s[3]) == self.SHRINK_DROP:
                return
        raise TranslationError("%s: nested item %s %s changed or is outside the fragment" % (f.name, s[1], s[2]))

    def special_let(self, f, s, nxt):
        # `let mut bytes = Bytes::new(buf);` -- the function runs on cur_new buf
        if s[3] is not None and s[3][0] == "call" and s[3][1] == ("path", "Bytes::new") and len(s[3][2]) == 1 \
                and s[3][2][0][0] == "path" and f.lookup(s[3][2][0][1])[2] == "buffer":
            if any(v[0] == "cursor" and k != "bytes" for sc in f.scopes for k, v in sc.items()) or f.made_cursor:
                raise TranslationError("%s: a second Bytes::new" % f.name)
            f.made_cursor = True
            f.scopes[-1][s[1][1]] = ("cursor", s[1][1], "cursor")
            return nxt()
        if f.name == "parse_with_config" and s[3] is not None and s[1][0] == "pbind":
            # `let headers = mem::take(&mut self.headers);`: `headers` is from now on a POINTER to the caller's array
            # (whatever the array holds when it is dereferenced: v_mem); self.headers becomes the empty slice.
            # `let headers: *mut [..] = headers;` / `let headers = headers as *mut [..];`: the same pointer.
            name, init = s[1][1], s[3]
            if init == ("call", ("path", "mem::take"), [("ref", True, ("field", ("path", "self"), "headers"))]):
                f.scopes[-1][name] = ("arrptr", name, "arrptr")
                l = f.gensym("l")
                return "%s <~ iget ;; %s ;;~ %s ;;~ %s" % (
                    l, f.setter("v_mem", "(%s_self_headers %s)" % (f.coqname, l)), f.setter("self_headers", "[]"), nxt())
            pth = _strip_ptr(init)
            if pth is not None:
                try:
                    kind = f.lookup(pth[1])[0]
                except TranslationError:
                    kind = None
                if kind == "arrptr":
                    f.scopes[-1][name] = ("arrptr", name, "arrptr")
                    return nxt()
        if f.name == "parse_headers_iter_uninit":
            name, init = s[1][1], s[3]
            if name == "autoshrink":
                if init != ("struct", "ShrinkOnDrop", [("headers", ("path", "headers")), ("num_headers", ("lit", 0))]):
                    raise TranslationError("autoshrink initialiser changed")
                f.muts.append(("v_num_headers", "usize"))
                f.scopes[-1]["autoshrink.num_headers"] = ("mut", "v_num_headers", "usize")
                return f.setter("v_num_headers", "O") + " ;;~ " + nxt()
            if name == "iter":
                if init != ("mcall", ("field", ("path", "autoshrink"), "headers"), "iter_mut", []):
                    raise TranslationError("iter initialiser changed")
                f.muts.append(("v_iter", "usize"))
                f.scopes[-1]["iter"] = ("iter", "v_iter", "iter")
                return f.setter("v_iter", "O") + " ;;~ " + nxt()
            if name == "uninit_header":
                want = ("match", ("mcall", ("path", "iter"), "next", []),
                        [(("pts", "Some", [("pbind", "header", False, None)]), None, ("path", "header")),
                         (("ppath", "None"), None, ("break", "'headers", None))])
                if init != want:
                    raise TranslationError("slot iterator shape changed")
                lab = f.find_label("'headers")
                l = f.gensym("l")
                f.scopes[-1]["uninit_header"] = ("imm", "uninit_header", "slotidx")
                cn, arr = f.coqname, "v_arr"
                return ("%s <~ iget ;; (if Nat.ltb (v_iter %s) (length (v_arr %s)) then "
                        "(let uninit_header := (v_iter %s) in %s ;;~ %s) "
                        "else ithrow (Brk %d %s))") % (
                    l, l, l, l, f.setter("v_iter", "(S (v_iter %s))" % l), nxt(), lab, self.brk_default(f.brk_ty))
        return None

    def special_assign(self, f, s, nxt):
        if f.name == "parse_with_config" and s[2] == "=" and s[1] == ("field", ("path", "self"), "headers"):
            # `self.headers = &mut *(headers as *mut [Header])`: the whole array, as it is NOW
            pth = _strip_ptr(s[3])
            if pth is not None and f.lookup(pth[1])[0] == "arrptr":
                l = f.gensym("l")
                return "%s <~ iget ;; %s ;;~ %s" % (l, f.setter("self_headers", "(%s_v_mem %s)" % (f.coqname, l)), nxt())
        if f.name == "parse_headers_iter_uninit":
            lhs, op, rhs = s[1], s[2], s[3]
            if lhs == ("unop", "*", ("path", "uninit_header")) and op == "=":
                if rhs[0] != "call" or rhs[1] != ("path", "MaybeUninit::new") or rhs[2][0][0] != "struct" \
                        or rhs[2][0][1] != "Header" or [x for x, _ in rhs[2][0][2]] != ["name", "value"]:
                    raise TranslationError("slot write shape changed")
                n, v = f.pure(rhs[2][0][2][0][1]), f.pure(rhs[2][0][2][1][1])
                if n is None or v is None or n[2] or v[2] or n[1] != "slice" or v[1] != "slice":
                    raise TranslationError("slot write operands")
                l = f.gensym("l")
                return ("%s <~ iget ;; match write_slot uninit_header (SWritten %s %s) (v_arr %s) with "
                        "Some a => %s | None => ifault WriteOOB end ;;~ %s") % (
                    l, n[0], v[0], l, f.setter("v_arr", "a"), nxt())
        return None

    def special_match(self, f, e, k):
        if f.name == "parse_with_config":
            sp = self.match_core_call(f, e, k)
            if sp is not None:
                return sp
        # complete!(CALL)  ==  match CALL? { Status::Complete(v) => v, Status::Partial => return Ok(Status::Partial) }
        scrut, arms = e[1], e[2]
        if scrut[0] == "try" and len(arms) == 2:
            a0, a1 = arms
            if a0[0] == ("pts", "Status::Complete", [("pbind", "v", False, None)]) and a0[1] is None \
                    and a0[2] == ("path", "v") and a1[0] == ("ppath", "Status::Partial") and a1[1] is None \
                    and a1[2] == ("return", ("call", ("path", "Ok"), [("path", "Status::Partial")])):
                call = scrut[1]
                while call[0] == "paren":
                    call = call[1]
                if call[0] == "call" and call[1][0] == "path" and call[1][1] in self.fns \
                        and all(f.is_bytes_arg(a) for a in call[2]):
                    f.calls.add(call[1][1])
                    x = f.gensym()
                    rty = self.fn_rty[call[1][1]]
                    if rty == "unit":
                        return "ilift %s ;;~ " % self.fns[call[1][1]] + (("iret tt") if k is RET else k("tt", "unit"))
                    return "%s <~ ilift %s ;; " % (x, self.fns[call[1][1]]) + (("iret %s" % x) if k is RET else k(x, rty))
                sp = self.special_call(f, call, k)
                if sp is not None:
                    return sp
            raise TranslationError("%s: `?` outside the complete! shape" % f.name)
        return None

    def match_core_call(self, f, e, k):
        """match self.parse_with_config_and_uninit_headers(buf, config, &mut *headers) {
               Ok(Status::Complete(idx)) => .., other => .. }"""
        scrut, arms = e[1], e[2]
        if not (scrut[0] == "mcall" and scrut[1] == ("path", "self") and scrut[2] == "parse_with_config_and_uninit_headers"
                and len(scrut[3]) == 3):
            return None
        if k is not RET:
            raise TranslationError("%s: the core call must be the function's result" % f.name)
        a_buf, a_cfg, a_hdr = scrut[3]
        if a_buf != ("path", "buf") or a_cfg != ("path", "config"):
            raise TranslationError("%s: core call arguments" % f.name)
        pth = _strip_ptr(a_hdr)
        if pth is None or f.lookup(pth[1])[0] != "arrptr":
            raise TranslationError("%s: the header argument of the core call must be the taken array" % f.name)
        a0 = arms[0][0] if arms else None
        if len(arms) != 2 or arms[0][1] is not None or arms[1][1] is not None \
                or not (a0[0] == "pts" and a0[1] == "Ok" and len(a0[2]) == 1 and a0[2][0][0] == "pts"
                        and a0[2][0][1] == "Status::Complete" and len(a0[2][0][2]) == 1
                        and a0[2][0][2][0][0] == "pbind" and a0[2][0][2][0][3] is None) \
                or arms[1][0][0] != "pbind" or arms[1][0][3] is not None:
            raise TranslationError("%s: core call match arms" % f.name)
        # the two binders are local to the arms: whatever they are called in the source, the generated text calls
        # them `idx` and `other`
        idx_src = a0[2][0][2][0][1]
        other = arms[1][0][1]
        bodies = []
        for a in arms:
            b, mode = a[2], "tail"
            if b[0] == "rawresult":
                b, mode = b[1], b[2]
            bodies.append((b, mode))
        cn, core = f.coqname, self.core_of[f.coqname]
        fields = [fl for fl, _ in f.muts]
        l, r = f.gensym("l"), f.gensym("r")
        init = "(fun l0 => %s_init %s)" % (core, " ".join("(%s_%s l0)" % (cn, fl) for fl in fields))
        fin = "(fun lh _ => mk%s %s)" % (f.L(), " ".join("(%s_%s lh)" % (core, fl) for fl in fields))
        f.scopes.append({idx_src: ("imm", "idx", "usize")})
        try:
            b0 = f.result(*bodies[0])
        finally:
            f.scopes.pop()
        f.scopes.append({other: ("imm", "other", "res_usize")})
        try:
            b1 = f.result(*bodies[1])
        finally:
            f.scopes.pop()
        return ("%s <~ iget ;; %s ;;~ %s <~ isub_catch (%s_body config buf) %s %s ;; "
                "match %s with RComplete idx => %s | %s => %s end") % (
            l, f.setter("v_headers", "(%s_v_mem %s)" % (cn, l)), r, core, init, fin, r, b0, "other", b1)

    HCFG_FIELDS = ["allow_spaces_after_header_name", "allow_obsolete_multiline_headers",
                   "allow_space_before_first_header_name", "ignore_invalid_headers"]

    def special_call(self, f, call, k):
        """complete!(parse_headers_iter_uninit(&mut headers, &mut bytes, &HeaderParserConfig {..}))  and
           complete!(parse_headers_iter(&mut dst, &mut iter, &HeaderParserConfig::default()))"""
        if call[0] != "call" or call[1][0] != "path" or call[1][1] not in ("parse_headers_iter_uninit", "parse_headers_iter"):
            return None
        if call[1][1] == "parse_headers_iter":
            self.pinned_ok("parse_headers_iter")
            self.pinned_ok("deinit_slice_mut")
        a = call[2]
        if len(a) != 3 or a[0][0] != "ref" or not a[0][1] or a[0][2][0] != "path" or not f.is_bytes_arg(a[1]):
            raise TranslationError("header machine call shape")
        kind, field, ty = f.lookup(a[0][2][1])
        if kind != "mut" or ty != "slots":
            raise TranslationError("header machine: first argument must be the mutable header slice")
        cfgarg = a[2][2] if a[2][0] == "ref" else a[2]
        inl = self.try_inline(cfgarg, f.name)
        if inl is not None and not inl[2][1] and inl[2][2] is not None:
            cfgarg = inl[2][2]          # a helper whose body is just the struct literal
        if cfgarg == ("call", ("path", "HeaderParserConfig::default"), []):
            self.struct_derives_default("HeaderParserConfig")
            hc, guards = "hcfg_default", []
        elif cfgarg[0] == "struct" and cfgarg[1] == "HeaderParserConfig" and [x for x, _ in cfgarg[2]] == self.HCFG_FIELDS:
            ps = [f.pure(v) for _, v in cfgarg[2]]
            if any(p is None or p[1] != "bool" or p[2] for p in ps):
                raise TranslationError("HeaderParserConfig literal")
            hc = "(mkhcfg %s)" % " ".join(p[0] for p in ps)
        else:
            raise TranslationError("HeaderParserConfig argument shape")
        x = f.gensym()
        pre, (hc,) = f.resolve(hc)
        code = pre + "%s <~ icall_headers E fuel %s %s_%s set_%s_%s set_%s_v_mem ;; " % (
            x, hc, f.coqname, field, f.coqname, field, f.coqname)
        return code + (("iret %s" % x) if k is RET else k(x, "usize"))

    def struct_derives_default(self, name):
        i = None
        for n in range(len(self.lib) - 1):
            if self.lib[n] == ("ident", "struct") and self.lib[n + 1] == ("ident", name):
                i = n
        if i is None or "Default" not in norm(self.lib[max(0, i - 14):i]) or "derive" not in norm(self.lib[max(0, i - 14):i]):
            raise TranslationError("struct %s no longer derives Default" % name)
        j = i
        while self.lib[j] != ("op", "{"):
            j += 1
        k2 = rsparse.matching(self.lib, j, "{", "}")
        fields = norm(self.lib[j + 1:k2])
        want = " , ".join("%s : bool" % x for x in self.HCFG_FIELDS) + " ,"
        if fields != want:
            raise TranslationError("struct %s fields changed: %s" % (name, fields))

    # ------------------------------------------------------------ emit one function
    # ---------------------------------------------------------- private helper functions are inlined
    # A call `helper(a1, .., an)` of a free function of lib.rs that is not one of the translated functions, has no
    # `return` / `?` inside and is not recursive is replaced by its body with the parameters substituted (plain
    # paths and literals) or bound by `let` (anything else) -- the same treatment a macro invocation gets.  So
    # extracting a few lines into an `#[inline]` helper, or inlining one, leaves the generated text unchanged.
    def helper_def(self, name):
        if name in self._helpers:
            return self._helpers[name]
        self._helpers[name] = None
        try:
            hdr, body = rsparse.find_fn(self.lib, name, 0)
        except TranslationError:
            return None
        # exactly one definition, a free function (no self), simple `ident: type` parameters
        n = sum(1 for i in range(len(self.lib) - 1) if self.lib[i] == ("ident", "fn") and self.lib[i + 1] == ("ident", name))
        if n != 1:
            return None
        i = next(j for j, t in enumerate(hdr) if t == ("op", "("))
        j = rsparse.matching(hdr, i, "(", ")")
        params, depth, cur = [], 0, []
        for t in hdr[i + 1:j]:
            if t[1] in ("(", "[", "<"):
                depth += 1
            elif t[1] in (")", "]", ">"):
                depth -= 1
            if t == ("op", ",") and depth == 0:
                params.append(cur)
                cur = []
            else:
                cur.append(t)
        if cur:
            params.append(cur)
        names = []
        for ptoks in params:
            ptoks = [t for t in ptoks if t != ("ident", "mut")]
            if len(ptoks) < 3 or ptoks[0][0] != "ident" or ptoks[1] != ("op", ":") or ptoks[0][1] == "self":
                return None
            names.append(ptoks[0][1])
        p = rsparse.RParser(body, self.macros)
        blk = p.parse_block_body(None)
        if not p.done():
            return None
        txt = repr(blk)
        if "('return'" in txt or "('try'" in txt or ("('path', '%s')" % name) in txt:
            return None
        self._helpers[name] = (names, blk)
        return self._helpers[name]

    def try_inline(self, node, current):
        """the body of a private helper with the call's arguments substituted, or None"""
        if not (isinstance(node, tuple) and len(node) == 3 and node[0] == "call" and node[1][0] == "path"
                and isinstance(node[1][1], str)):
            return None
        name = node[1][1]
        if "::" in name or not name[:1].islower() or name == current:
            return None
        hd = self.helper_def(name)
        if hd is None or len(hd[0]) != len(node[2]):
            return None
        names, blk = hd
        sub, lets = {}, []
        for pn, a in zip(names, node[2]):
            a0 = a
            while a0[0] in ("paren", "ref"):
                a0 = a0[1] if a0[0] == "paren" else a0[-1]
            if a0[0] in ("path", "lit", "bool") or (a0[0] == "field" and a0[1][0] == "path"):
                sub[pn] = a0
            else:
                lets.append(("let", ("pbind", pn, False, None), None, a))
        body = _subst(blk, sub)
        return ("mexp", "fn " + name, ("block", lets + list(body[1]), body[2]))

    def emit_fn(self, rust_name, coqname, rty, nth=0, params=None, brk_ty="unit", self_fields=None,
                extra_args="", top=False, param_muts=()):
        hdr, body = rsparse.find_fn(self.lib, rust_name, nth)
        p = rsparse.RParser(body, self.macros)
        ast = p.parse_block_body(None)
        if not p.done():
            raise TranslationError("fn %s: trailing tokens" % rust_name)
        f = FnTr(self, rust_name, coqname, ast, rty, params or {}, brk_ty, self_fields)
        for fl, ty in param_muts:
            f.muts.append((fl, ty))
        code = f.translate()
        L = f.L()
        lines = []
        if f.muts:
            fields = "; ".join("%s_%s : %s" % (coqname, fl, coq_ty(ty)) for fl, ty in f.muts)
            if getattr(f, "mut_src", None):
                lines.append("(* locals: %s *)" % ", ".join("%s = `%s`" % (fl, nm) for fl, nm in f.mut_src))
            lines.append("Record %s := mk%s { %s }." % (L, L, fields))
            for i, (fl, ty) in enumerate(f.muts):
                args = " ".join("x" if j == i else "(%s_%s l)" % (coqname, g) for j, (g, _) in enumerate(f.muts))
                lines.append("Definition set_%s_%s (x : %s) (l : %s) : %s := mk%s %s." % (
                    coqname, fl, coq_ty(ty), L, L, L, args))
            pm = [fl for fl, _ in param_muts]
            init = "mk%s %s" % (L, " ".join(fl if fl in pm else default_of(ty) for fl, ty in f.muts))
            code = re.sub(r"\((v_\w+|self_\w+|m\d+) (l\d+)\)", lambda m: "(%s_%s %s)" % (coqname, m.group(1), m.group(2)), code)
        else:
            lines.append("Definition %s := unit." % L)
            init = "tt"
        iargs = "".join(" (%s : %s)" % (fl, coq_ty(ty)) for fl, ty in param_muts)
        lines.append("Definition %s_init%s : %s := %s." % (coqname, iargs, L, init))
        rc = {"tuple_usize_u64": "(nat * N)", "tuple_usize_slots": "(nat * list slot)"}.get(rty) or coq_ty(rty)
        lines.append("Definition %s_body %s: I %s %s %s %s :=\n  %s." % (
            coqname, extra_args, L, rc, coq_ty(brk_ty), rc, wrap(code)))
        if not param_muts:
            lines.append("Definition %s %s: P %s := irun (%s_body %s) %s_init." % (
                coqname, extra_args, rc, coqname, " ".join(a.split(":")[0].strip("( ") for a in extra_args.split(")") if a.strip()), coqname))
            self.fns[rust_name] = coqname
        return "\n".join(lines) + "\n", f


def wrap(code, width=100):
    """break the one-line term at `;;` boundaries for readability"""
    out, line = [], ""
    for part in re.split(r"(?<=;;~ )|(?<=;; )", code):
        if len(line) + len(part) > width and line:
            out.append(line.rstrip())
            line = "  " + part
        else:
            line += part
    out.append(line)
    return "\n  ".join(out)


HEADER = """(* GENERATED by translator/lib2v.py from /repo/src/lib.rs and /repo/src/macros.rs -- do not edit.
   One definition per Rust function, in the monad of Imp.v; macros are expanded from their
   macro_rules! definitions. *)
From Coq Require Import List NArith Bool.
From HV Require Import Cursor Scan Model Imp ImpLib.
Import ListNotations.
Local Open Scope imp_scope.

"""


def generate(lib_toks, mac_toks):
    g = Gen(lib_toks, mac_toks)
    out = [HEADER, "Section WithEnv.\nVariable E : env.\nVariable fuel : nat.\n"]
    leaf = [("skip_empty_lines", "g_skip_empty_lines", "unit"),
            ("skip_spaces", "g_skip_spaces", "unit"),
            ("parse_version", "g_parse_version", "u8"),
            ("parse_token", "g_parse_token", "slice"),
            ("parse_method", "g_parse_method", "slice"),
            ("parse_uri", "g_parse_uri", "slice"),
            ("parse_code", "g_parse_code", "u16"),
            ("parse_reason", "g_parse_reason", "slice")]
    for rn, cn, rty in leaf:
        g.fn_rty[rn] = rty
        try:
            text, f = g.emit_fn(rn, cn, rty)
            out.append("(* fn %s *)\n%s" % (rn, text))
        except (TranslationError, IndexError, KeyError, TypeError, ValueError, AttributeError, AssertionError) as ex:
            g.errors.append("G9 %s: %s" % (rn, ex))
            out.append("(* fn %s: TRANSLATION FAILED: %s *)\nDefinition %s : P unit := fun _ => Fault Unreachable.\n" % (rn, str(ex).replace("*)", "* )"), cn))
    try:
        text, f = g.emit_fn("parse_headers_iter_uninit", "g_headers", "usize",
                            params={"config": ("imm", "config", "struct:HeaderParserConfig")},
                            brk_ty="slice", extra_args="(config : hcfg) ", param_muts=[("v_arr", "slots")])
        out.append("(* fn parse_headers_iter_uninit *)\n" + text)
    except (TranslationError, IndexError, KeyError, TypeError, ValueError, AttributeError, AssertionError) as ex:
        g.errors.append("G9 parse_headers_iter_uninit: %s" % ex)
        out.append("(* fn parse_headers_iter_uninit: TRANSLATION FAILED: %s *)\nDefinition g_headers_body : unit := tt.\n" % str(ex).replace("*)", "* )"))
    out.append("End WithEnv.\n")
    # parse_chunk_size: no environment
    out.append("Section Chunk.\nVariable dbg : bool.\nVariable fuel : nat.\n")
    try:
        g.mut_types[("parse_chunk_size", "size")] = "int"
        text, f = g.emit_fn("parse_chunk_size", "g_parse_chunk_size", "tuple_usize_u64",
                            params={"buf": ("imm", "buf", "buffer")})
        out.append("(* fn parse_chunk_size *)\n" + text)
    except (TranslationError, IndexError, KeyError, TypeError, ValueError, AttributeError, AssertionError) as ex:
        g.errors.append("G9 parse_chunk_size: %s" % ex)
        out.append("(* fn parse_chunk_size: TRANSLATION FAILED: %s *)\nDefinition g_parse_chunk_size : P unit := fun _ => Fault Unreachable.\n" % str(ex).replace("*)", "* )"))
    out.append("End Chunk.\n")
    return "\n".join(out), generate_api(g), g.errors


PINNED_WRAPPERS = [
    ('new', 0, "fn new ( headers : & 'h mut [ Header < 'b > ] ) -> Request < 'h , 'b > { Request { method : None , path : None , version : None , headers , } }"),
    ('new', 1, "fn new ( headers : & 'h mut [ Header < 'b > ] ) -> Response < 'h , 'b > { Response { version : None , code : None , reason : None , headers , } }"),
]

# G14: the seven one-expression delegations, translated.  A delegation is `RECV.callee(args)` where RECV is the value
# (`self` in a Request / Response method, the `request` / `response` parameter in a ParserConfig method) and every
# argument is one of: the buffer parameter, the headers parameter, a configuration (`self` in a ParserConfig method, a
# `config` parameter, `&Default::default()` / `&ParserConfig::default()`).  Arguments are matched to the CALLEE's
# parameters by the callee's parameter names (buf / config / headers), read from its signature.
#   (rust name, nth, coq name, kind)
DELEGATIONS = [
    ("parse", 0, "gd_request_parse", "request"),
    ("parse_with_uninit_headers", 0, "gd_request_parse_with_uninit_headers", "request"),
    ("parse", 1, "gd_response_parse", "response"),
    ("parse_request", 0, "gd_parse_request", "request"),
    ("parse_request_with_uninit_headers", 0, "gd_parse_request_with_uninit_headers", "request"),
    ("parse_response", 0, "gd_parse_response", "response"),
    ("parse_response_with_uninit_headers", 0, "gd_parse_response_with_uninit_headers", "response"),
]
ROLE_TY = {"cf": "config", "buf": "list N", "v": "V", "arr": "list slot"}
ROLE_ORDER = ["cf", "buf", "v", "arr"]


def _sig_params(hdr):
    """fn header tokens -> [(name, normalised type)] ; `self` parameters as ("self", "&self" | "&mut self")"""
    i = 0
    while hdr[i] != ("op", "("):
        i += 1
    j = matching(hdr, i, "(", ")")
    ps, cur, depth = [], [], 0
    for t in hdr[i + 1:j]:
        if t[1] in ("(", "[", "<"):
            depth += 1
        elif t[1] in (")", "]", ">"):
            depth -= 1
        elif t[1] == ">>":
            depth -= 2
        if t == ("op", ",") and depth == 0:
            ps.append(cur)
            cur = []
        else:
            cur.append(t)
    if cur:
        ps.append(cur)
    out = []
    for q in ps:
        txt = norm(q)
        if txt in ("& mut self", "& self", "self", "mut self"):
            out.append(("self", txt.replace(" ", "").replace("&mut", "&mut ")))
            continue
        if q and q[0][1] == "mut":
            q = q[1:]
        if len(q) < 3 or q[1] != ("op", ":"):
            raise TranslationError("parameter form: " + txt)
        out.append((q[0][1], norm(q[2:])))
    return out, norm(hdr[j + 1:])


def _role_of_param(name, ty):
    t = ty.replace("'_", "'a")
    if re.fullmatch(r"& '?\w* ?\[ u8 \]", ty):
        return "buf"
    if ty == "& ParserConfig":
        return "cf"
    if re.fullmatch(r"& '?\w* ?mut \[ MaybeUninit < Header < '\w+ >> \]", ty):
        return "arr"
    if re.fullmatch(r"& mut (Request|Response) < '\w+ , '\w+ >", ty):
        return "v"
    raise TranslationError("delegation parameter %s : %s" % (name, ty))


def generate_delegations(g):
    out = ["(* G14: the one-expression delegations, translated.  Xw = this kind's `parse_with_config`, Xc = its\n"
           "   `parse_with_config_and_uninit_headers`; V = Request / Response, R = the result. *)"]
    known = {}      # (kind, rust name) -> (coq name, roles)
    exc = (TranslationError, IndexError, KeyError, TypeError, ValueError, AttributeError, AssertionError)
    for rn, nth, cn, kind in DELEGATIONS:
        try:
            hdr, body = rsparse.find_fn(g.lib, rn, nth)
            params, ret = _sig_params(hdr)
            if ret != "-> Result < usize >":
                raise TranslationError("return type " + ret)
            env = {}
            for name, ty in params:
                if name == "self":
                    env["self"] = "v" if ty == "&mut self" else ("cf" if ty == "&self" else None)
                    if env["self"] is None:
                        raise TranslationError("self parameter " + ty)
                else:
                    env[name] = _role_of_param(name, ty)
            roles = [r for r in ROLE_ORDER if r in env.values()]
            if sorted(env.values()) != sorted(roles):
                raise TranslationError("two parameters of one role")
            blk = rsparse.RParser(body).parse_block_body(None)
            # `let c = ParserConfig::default();` before the call names the default configuration
            lets = {}
            for st in blk[1]:
                if st[0] == "let" and st[1][0] == "pbind" and st[1][3] is None and st[3] is not None \
                        and st[3][0] == "call" and st[3][1][0] == "path" and not st[3][2] \
                        and st[3][1][1] in ("Default::default", "ParserConfig::default") \
                        and (st[2] is None or (st[2] if isinstance(st[2], str) else norm(st[2])) == "ParserConfig"):
                    lets[st[1][1]] = "config_default"
                else:
                    raise TranslationError("statement before the delegating call: " + repr(st)[:80])
            if blk[2] is None or blk[2][0] != "mcall":
                raise TranslationError("not a one-expression delegation")
            _, recv, callee, args = blk[2]
            if recv[0] != "path" or env.get(recv[1]) != "v":
                raise TranslationError("receiver is not the Request / Response value")

            def arg_term(a):
                if a[0] == "path" and a[1] in env and env[a[1]] != "v":
                    return env[a[1]], {"cf": "cf", "buf": "buf", "arr": "arr"}[env[a[1]]]
                if a[0] == "ref" and not a[1] and a[2][0] == "path" and a[2][1] in lets:
                    return "cf", lets[a[2][1]]
                if a[0] == "ref" and not a[1] and a[2][0] == "call" and a[2][1][0] == "path" and not a[2][2] \
                        and a[2][1][1] in ("Default::default", "ParserConfig::default"):
                    return "cf", "config_default"
                raise TranslationError("delegation argument " + repr(a)[:80])
            ats = [arg_term(a) for a in args]
            knth = {"request": 0, "response": 1}[kind]
            if callee in ("parse_with_config", "parse_with_config_and_uninit_headers"):
                chdr, _ = rsparse.find_fn(g.lib, callee, knth)
                cps, _ = _sig_params(chdr)
                croles = [_role_of_param(n, t) for n, t in cps if n != "self"]
                head = "Xw" if callee == "parse_with_config" else "Xc"
                want = ["cf", "buf"] + (["arr"] if head == "Xc" else [])
            elif (kind, callee) in known:
                ccn, kroles = known[(kind, callee)]
                chdr, _ = rsparse.find_fn(g.lib, callee, [d[1] for d in DELEGATIONS if d[0] == callee and d[3] == kind][0])
                cps, _ = _sig_params(chdr)
                croles = [_role_of_param(n, t) for n, t in cps if n != "self"]
                head = "%s Xw Xc" % ccn
                want = [r for r in kroles if r != "v"]
            else:
                raise TranslationError("delegates to %s, which is outside the fragment" % callee)
            if [r for r, _ in ats] != croles or sorted(croles) != sorted(want):
                raise TranslationError("arguments %s against the callee's parameters %s" % ([r for r, _ in ats], croles))
            byrole = dict(ats)
            byrole["v"] = "v"
            call = head + " " + " ".join(byrole[r] for r in ROLE_ORDER if r in byrole and (r in want or r == "v"))
            binders = " ".join("(%s : %s)" % (r, ROLE_TY[r]) for r in roles)
            out.append("(* fn %s (#%d) *)\nDefinition %s {V R : Type} (Xw : config -> list N -> V -> R) "
                       "(Xc : config -> list N -> V -> list slot -> R) %s : R :=\n  %s.\n" % (rn, nth, cn, binders, call))
            known[(kind, rn)] = (cn, roles)
        except exc as ex:
            g.errors.append("G14 %s#%d: %s" % (rn, nth, ex))
            out.append("(* fn %s (#%d): TRANSLATION FAILED: %s *)\nDefinition %s : unit := tt.\n" % (rn, nth, str(ex).replace("*)", "* )"), cn))
    return "\n".join(out)

PARSER_CONFIG = ("# [ derive ( Clone , Debug , Default ) ] pub struct ParserConfig { allow_spaces_after_header_name_in_responses : bool , "
                 "allow_obsolete_multiline_headers_in_responses : bool , allow_multiple_spaces_in_request_line_delimiters : bool , "
                 "allow_multiple_spaces_in_response_status_delimiters : bool , allow_space_before_first_header_name : bool , "
                 "ignore_invalid_headers_in_responses : bool , ignore_invalid_headers_in_requests : bool , }")

HEADER_API = """(* GENERATED by translator/lib2v.py from /repo/src/lib.rs -- do not edit.
   The two `parse_with_config_and_uninit_headers` bodies and `parse_headers`, in the monad of Imp.v.
   The one-line delegating wrappers (parse, parse_with_config, ParserConfig::parse_*, new) are pinned by
   their token text: `wrappers_pinned` below is `true` only when every one of them reads as reviewed
   (Api.v models them by hand). *)
From Coq Require Import List NArith Bool.
From HV Require Import Cursor Scan Model Api Imp ImpLib ImpGlue.
From HV.Generated Require Import Lib.
Import ListNotations.
Local Open Scope imp_scope.

"""


def generate_api(g):
    out = [HEADER_API, "Section WithEnv.\nVariable E : env.\nVariable fuel : nat.\n"]
    exc = (TranslationError, IndexError, KeyError, TypeError, ValueError, AttributeError, AssertionError)
    # the leaf functions live in Generated/Lib.v, inside a section with E and fuel
    leaf_env = ("g_parse_token", "g_parse_method", "g_parse_uri")
    saved = dict(g.fns)
    for k, v in list(g.fns.items()):
        if v in leaf_env:
            g.fns[k] = "(%s E fuel)" % v
        elif v in ("g_skip_empty_lines", "g_skip_spaces", "g_parse_reason"):
            g.fns[k] = "(%s fuel)" % v
    cfgp = ("imm", "config", "struct:ParserConfig")
    bufp = ("imm", "buf", "buffer")
    specs = [
        ("parse_with_config_and_uninit_headers", 0, "g_request_core",
         [("self_method", "optslice"), ("self_path", "optslice"), ("self_version", "optu8"), ("self_headers", "slots")],
         {"self.method": "self_method", "self.path": "self_path", "self.version": "self_version", "self.headers": "self_headers"}),
        ("parse_with_config_and_uninit_headers", 1, "g_response_core",
         [("self_version", "optu8"), ("self_code", "optn"), ("self_reason", "optslice"), ("self_headers", "slots")],
         {"self.version": "self_version", "self.code": "self_code", "self.reason": "self_reason", "self.headers": "self_headers"}),
    ]
    for rn, nth, cn, selfs, names in specs:
        try:
            params = {"buf": bufp, "config": cfgp, "headers": ("mut", "v_headers", "slots")}
            tys = dict(selfs)
            for src, fl in names.items():
                params[src] = ("mut", fl, tys[fl])
            text, f = g.emit_fn(rn, cn, "usize", nth=nth, params=params,
                                extra_args="(config : config) (buf : list N) ",
                                param_muts=selfs + [("v_headers", "slots"), ("v_mem", "slots")])
            out.append("(* fn %s (#%d) *)\n%s" % (rn, nth, text))
        except exc as ex:
            g.errors.append("G9 %s#%d: %s" % (rn, nth, ex))
            out.append("(* fn %s (#%d): TRANSLATION FAILED: %s *)\nDefinition %s_body : unit := tt.\n" % (rn, nth, str(ex).replace("*)", "* )"), cn))
    # the two `parse_with_config` wrappers (take self.headers, cast, call the core, restore unless Complete)
    for nth, cn, core, selfs, names in ((0, "g_request_with_config", "g_request_core") + tuple(specs[0][3:]),
                                        (1, "g_response_with_config", "g_response_core") + tuple(specs[1][3:])):
        try:
            params = {"buf": bufp, "config": cfgp}
            tys = dict(selfs)
            for src, fl in names.items():
                params[src] = ("mut", fl, tys[fl])
            g.core_of[cn] = core
            text, f = g.emit_fn("parse_with_config", cn, "usize", nth=nth, params=params,
                                extra_args="(config : config) (buf : list N) ",
                                param_muts=selfs + [("v_headers", "slots"), ("v_mem", "slots")])
            out.append("(* fn parse_with_config (#%d) *)\n%s" % (nth, text))
        except exc as ex:
            g.errors.append("G9 parse_with_config#%d: %s" % (nth, ex))
            out.append("(* fn parse_with_config (#%d): TRANSLATION FAILED: %s *)\nDefinition %s_body : unit := tt.\n" % (nth, str(ex).replace("*)", "* )"), cn))
    try:
        text, f = g.emit_fn("parse_headers", "g_parse_headers", "tuple_usize_slots",
                            params={"src": ("imm", "src", "buffer"), "dst": ("mut", "v_headers", "slots")},
                            extra_args="(src : list N) ", param_muts=[("v_headers", "slots"), ("v_mem", "slots")])
        out.append("(* fn parse_headers *)\n" + text)
    except exc as ex:
        g.errors.append("G9 parse_headers: %s" % ex)
        out.append("(* fn parse_headers: TRANSLATION FAILED: %s *)\nDefinition g_parse_headers_body : unit := tt.\n" % str(ex).replace("*)", "* )"))
    out.append("End WithEnv.\n")
    g.fns = saved
    out.append(generate_delegations(g))
    bad = []
    for name, nth, want in PINNED_WRAPPERS:
        try:
            hdr, body = rsparse.find_fn(g.lib, name, nth)
            got = norm(hdr) + " { " + norm(body) + " }"
        except exc as ex:
            got = "<not found: %s>" % ex
        if got != want:
            bad.append("%s#%d" % (name, nth))
            g.errors.append("G9 pinned wrapper %s#%d changed: %s" % (name, nth, got[:300]))
    toks = norm(g.lib)
    if PARSER_CONFIG not in toks:
        bad.append("ParserConfig")
        g.errors.append("G9 pinned struct ParserConfig changed")
    out.append("(* the delegating wrappers and ParserConfig read as reviewed: %s *)" % ("yes" if not bad else "NO: " + ", ".join(bad)))
    out.append("Definition wrappers_pinned : bool := %s.\n" % ("true" if not bad else "false"))
    return "\n".join(out)


if __name__ == "__main__":
    import sys
    import rs2v
    repo = sys.argv[1] if len(sys.argv) > 1 else "/repo"
    lib = rs2v.lex(open(repo + "/src/lib.rs").read())
    mac = rs2v.lex(open(repo + "/src/macros.rs").read())
    text, api, errs = generate(lib, mac)
    sys.stdout.write(text if len(sys.argv) < 3 else api)
    for e in errs:
        sys.stderr.write(e + "\n")
