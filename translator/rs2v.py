#!/usr/bin/env python3
"""rs2v.py -- translate the straight-line / tabular parts of httparse into Gallina.

Reads /repo's *working tree* (argument 1) and writes coq/Generated/*.v (argument 2).
A file is rewritten only if its content changes.  The accepted Rust fragment is
deliberately narrow; anything outside it raises TranslationError, which the
check treats like a broken proof obligation (never silently skipped).

  G1  lib.rs    byte_map! tables, is_*_token predicates; neon.rs bit_set
  G2  swar.rs   match_uri_char_8_swar, match_header_value_char_8_swar (let chains),
                offsetnz / uniform_block / BLOCK_SIZE (template-checked)
  G3  sse42.rs, avx2.rs, neon.rs  block kernels (SSA over a fixed intrinsic vocabulary)
  G4  the `while len >= G { adv = kernel; advance; if adv != R return } fallback` loops
  G5  simd/mod.rs cfg lattice, compile-time shims, runtime.rs dispatch
"""
import os, re, sys


class TranslationError(Exception):
    pass


# ---------------------------------------------------------------- lexing
TOKEN_RE = re.compile(r"""
    (?P<ws>\s+)
  | (?P<lcomment>//[^\n]*)
  | (?P<bcomment>/\*.*?\*/)
  | (?P<bytelit>b'(?:\\x[0-9a-fA-F]{2}|\\.|[^\\'])')
  | (?P<bytestr>b"(?:\\.|[^"\\])*")
  | (?P<str>"(?:\\.|[^"\\])*")
  | (?P<lifetime>'[A-Za-z_][A-Za-z0-9_]*(?!'))
  | (?P<charlit>'(?:\\.|[^\\'])')
  | (?P<num>0x[0-9a-fA-F_]+(?:_?[iu](?:8|16|32|64|size))?|0b[01_]+(?:_?[iu](?:8|16|32|64|size))?|[0-9][0-9_]*(?:_?[iu](?:8|16|32|64|size))?)
  | (?P<ident>[A-Za-z_][A-Za-z0-9_]*!?)
  | (?P<op>\.\.=|::|->|=>|==|!=|<=|>=|&&|\|\||<<|>>|\+=|-=|\*=|\|=|&=|[-+*/%&|^!<>=.,;:#\[\](){}?@$])
""", re.X | re.S)


def lex(src):
    toks = []
    i = 0
    while i < len(src):
        m = TOKEN_RE.match(src, i)
        if not m:
            raise TranslationError("cannot lex at %r" % src[i:i + 30])
        k = m.lastgroup
        if k not in ("ws", "lcomment", "bcomment"):
            toks.append((k, m.group(k)))
        i = m.end()
    return strip_hooks(toks)


def strip_hooks(toks):
    """remove every item / statement annotated #[cfg(httparse_verif)] (the add-only verification hooks)"""
    out = []
    i = 0
    hook = [("op", "#"), ("op", "["), ("ident", "cfg"), ("op", "("), ("ident", "httparse_verif"),
            ("op", ")"), ("op", "]")]
    while i < len(toks):
        if toks[i:i + 7] == hook:
            i += 7
            while toks[i] == ("op", "#"):               # further attributes
                i = matching(toks, i + 1, "[", "]") + 1
            depth = 0
            while True:
                v = toks[i][1]
                if v in "([":
                    depth += 1
                elif v in ")]":
                    depth -= 1
                elif v == ";" and depth == 0:
                    i += 1
                    break
                elif v == "{" and depth == 0:
                    i = matching(toks, i, "{", "}") + 1
                    break
                i += 1
        else:
            out.append(toks[i])
            i += 1
    return out


def byte_value(tok):
    k, v = tok
    if k == "bytelit":
        body = v[2:-1]
        if body.startswith("\\x"):
            return int(body[2:], 16)
        esc = {"\\n": 10, "\\r": 13, "\\t": 9, "\\0": 0, "\\'": 39, "\\\\": 92, '\\"': 34}
        if body in esc:
            return esc[body]
        if len(body) == 1:
            return ord(body)
        raise TranslationError("byte literal " + v)
    if k == "num":
        s = re.sub(r"_?[iu](8|16|32|64|size)$", "", v).replace("_", "")
        return int(s, 16) if s.startswith("0x") else int(s[2:], 2) if s.startswith("0b") else int(s)
    raise TranslationError("expected a byte value, got %r" % (tok,))


def find_item(toks, kind, name):
    """index of the token `kind` immediately followed by ident `name`"""
    for i in range(len(toks) - 1):
        if toks[i] == ("ident", kind) and toks[i + 1] == ("ident", name):
            return i
    raise TranslationError("no `%s %s` found" % (kind, name))


def matching(toks, i, open_, close):
    assert toks[i] == ("op", open_), toks[i]
    depth = 0
    j = i
    while j < len(toks):
        if toks[j] == ("op", open_):
            depth += 1
        elif toks[j] == ("op", close):
            depth -= 1
            if depth == 0:
                return j
        j += 1
    raise TranslationError("unbalanced " + open_)


def fn_body(toks, name):
    i = find_item(toks, "fn", name)
    j = i
    while toks[j] != ("op", "{"):
        j += 1
    k = matching(toks, j, "{", "}")
    return toks[i:j], toks[j + 1:k]


def norm(toks):
    return " ".join(v for _, v in toks)


# ---------------------------------------------------------------- G1: byte classes
def parse_pattern_alts(toks):
    """b'A'..=b'Z' | b'!' | 0x80..=0xFF ...  ->  list of (lo, hi)"""
    alts = []
    i = 0
    while i < len(toks):
        lo = byte_value(toks[i])
        i += 1
        hi = lo
        if i < len(toks) and toks[i] == ("op", "..="):
            hi = byte_value(toks[i + 1])
            i += 2
        alts.append((lo, hi))
        if i < len(toks):
            if toks[i] != ("op", "|"):
                raise TranslationError("pattern: expected `|`, got %r" % (toks[i],))
            i += 1
    if not alts:
        raise TranslationError("empty pattern")
    return alts


def alts_to_coq(alts, var="b"):
    parts = []
    for lo, hi in alts:
        if lo == hi:
            parts.append("(%s =? %d)" % (var, lo))
        else:
            parts.append("((%d <=? %s) && (%s <=? %d))" % (lo, var, var, hi))
    return "\n    || ".join(parts)


def g1_tables(lib_toks):
    out = []
    for tab in ("URI_MAP", "TOKEN_MAP", "HEADER_VALUE_MAP"):
        i = find_item(lib_toks, "static", tab)
        # static NAME : [bool ; 256] = byte_map! ( ... ) ;
        hdr = norm(lib_toks[i:i + 10])
        if hdr != "static %s : [ bool ; 256 ] = byte_map!" % tab:
            raise TranslationError("unexpected shape of static %s: %s" % (tab, hdr))
        j = i + 10
        k = matching(lib_toks, j, "(", ")")
        alts = parse_pattern_alts(lib_toks[j + 1:k])
        out.append("Definition %s (b : N) : bool :=\n    %s.\n" % (tab, alts_to_coq(alts)))
    # the byte_map! macro itself
    return "\n".join(out)


def g1_byte_map_macro(mac_toks):
    want = ("macro_rules! byte_map { ( $ ( $ p : pat ) | + ) => { { const fn make_map ( ) -> [ bool ; 256 ] "
            "{ let mut ret = [ false ; 256 ] ; let mut i = 0 ; while i < 256 { ret [ i ] = matches! "
            "( i as u8 , $ ( $ p ) | + ) ; i += 1 ; } ret } make_map ( ) } } }")
    i = None
    for n in range(len(mac_toks) - 1):
        if mac_toks[n] == ("ident", "macro_rules!") and mac_toks[n + 1] == ("ident", "byte_map"):
            i = n
    if i is None:
        raise TranslationError("macro byte_map! not found")
    j = i + 2
    k = matching(mac_toks, j, "{", "}")
    got = norm(mac_toks[i:k + 1])
    if got != want:
        raise TranslationError("byte_map! macro changed:\n  got  %s\n  want %s" % (got, want))


def g1_predicates(lib_toks):
    out = []
    # fn is_method_token(b: u8) -> bool { match b { PAT => true, _ => TOKEN_MAP[b as usize], } }
    hdr, body = fn_body(lib_toks, "is_method_token")
    if norm(hdr) != "fn is_method_token ( b : u8 ) -> bool":
        raise TranslationError("is_method_token signature: " + norm(hdr))
    if norm(body[:3]) != "match b {":
        raise TranslationError("is_method_token body: " + norm(body))
    inner = body[3:matching(body, 2, "{", "}")]
    arms = []
    i = 0
    while i < len(inner):
        j = i
        while inner[j] != ("op", "=>"):
            j += 1
        pat = inner[i:j]
        k = j + 1
        depth = 0
        while k < len(inner) and not (inner[k] == ("op", ",") and depth == 0):
            if inner[k][1] in "([{":
                depth += 1
            if inner[k][1] in ")]}":
                depth -= 1
            k += 1
        arms.append((pat, inner[j + 1:k]))
        i = k + 1
    expr = None
    for pat, rhs in reversed(arms):
        r = norm(rhs)
        if r == "true":
            val = "true"
        elif r == "false":
            val = "false"
        else:
            m = re.fullmatch(r"(\w+) \[ b as usize \]", r)
            if not m:
                raise TranslationError("is_method_token arm: " + r)
            val = "%s b" % m.group(1)
        if norm(pat) == "_":
            if expr is not None:
                raise TranslationError("is_method_token: `_` arm is not last")
            expr = val
        else:
            if expr is None:
                raise TranslationError("is_method_token: no default arm")
            expr = "if %s\n    then %s else (%s)" % (alts_to_coq(parse_pattern_alts(pat)), val, expr)
    out.append("Definition is_method_token (b : N) : bool :=\n    %s.\n" % expr)
    for fn, tab in (("is_uri_token", None), ("is_header_name_token", None), ("is_header_value_token", None)):
        hdr, body = fn_body(lib_toks, fn)
        if norm(hdr) != "fn %s ( b : u8 ) -> bool" % fn:
            raise TranslationError(fn + " signature: " + norm(hdr))
        m = re.fullmatch(r"(\w+) \[ b as usize \]", norm(body))
        if not m:
            raise TranslationError(fn + " body: " + norm(body))
        out.append("Definition %s (b : N) : bool := %s b.\n" % (fn, m.group(1)))
    return "\n".join(out)


# ---------------------------------------------------------------- expressions
class Parser:
    """Rust expression subset -> AST
       ("num", n) ("id", name) ("call", fname, [args]) ("method", recv, name, [args])
       ("bin", op, l, r) ("not", e) ("cast", e, ty) ("path", "a::b") ("index", e, i)"""

    def __init__(self, toks):
        self.t = toks
        self.i = 0

    def peek(self):
        return self.t[self.i] if self.i < len(self.t) else (None, None)

    def eat(self, v=None):
        tok = self.peek()
        if v is not None and tok[1] != v:
            raise TranslationError("expected %r, got %r in: %s" % (v, tok[1], norm(self.t)))
        self.i += 1
        return tok

    def expr(self):
        return self.bor()

    def bor(self):
        l = self.bxor()
        while self.peek() == ("op", "|"):
            self.eat()
            l = ("bin", "|", l, self.bxor())
        return l

    def bxor(self):
        l = self.band()
        while self.peek() == ("op", "^"):
            self.eat()
            l = ("bin", "^", l, self.band())
        return l

    def band(self):
        l = self.cast()
        while self.peek() == ("op", "&"):
            self.eat()
            l = ("bin", "&", l, self.cast())
        return l

    def cast(self):
        e = self.unary()
        while self.peek() == ("ident", "as"):
            self.eat()
            ty = []
            if self.peek() == ("op", "*"):
                ty.append(self.eat()[1])
                ty.append(self.eat()[1])  # const
                ty.append(self.eat()[1])  # _ or type
            else:
                ty.append(self.eat()[1])
            e = ("cast", e, " ".join(ty))
        return e

    def unary(self):
        if self.peek() == ("op", "!"):
            self.eat()
            return ("not", self.unary())
        return self.postfix()

    def postfix(self):
        e = self.primary()
        while True:
            if self.peek() == ("op", "."):
                self.eat()
                name = self.eat()[1]
                if self.peek() == ("op", "("):
                    e = ("method", e, name, self.args())
                else:
                    e = ("field", e, name)
            elif self.peek() == ("op", "["):
                self.eat()
                idx = self.expr()
                self.eat("]")
                e = ("index", e, idx)
            else:
                return e

    def args(self):
        self.eat("(")
        a = []
        while self.peek() != ("op", ")"):
            a.append(self.expr())
            if self.peek() == ("op", ","):
                self.eat()
        self.eat(")")
        return a

    def primary(self):
        k, v = self.peek()
        if k in ("num", "bytelit"):
            self.eat()
            return ("num", byte_value((k, v)))
        if v == "(":
            self.eat()
            e = self.expr()
            self.eat(")")
            return e
        if k == "ident":
            self.eat()
            name = v
            while self.peek() == ("op", "::"):
                self.eat()
                if self.peek() == ("op", "<"):       # turbofish ::<0>
                    self.eat()
                    name += "::<" + self.eat()[1] + ">"
                    self.eat(">")
                else:
                    name += "::" + self.eat()[1]
            if self.peek() == ("op", "("):
                return ("call", name, self.args())
            return ("id", name)
        raise TranslationError("unexpected token %r in: %s" % (v, norm(self.t)))


def parse_expr(toks):
    p = Parser(toks)
    e = p.expr()
    if p.i != len(toks):
        raise TranslationError("trailing tokens in expression: " + norm(toks[p.i:]))
    return e


def split_stmts(body):
    """split a fn body on top-level `;`; returns (stmts, tail_expr_tokens)"""
    stmts, cur, depth = [], [], 0
    for tok in body:
        if tok[1] in "([{":
            depth += 1
        if tok[1] in ")]}":
            depth -= 1
        if tok == ("op", ";") and depth == 0:
            stmts.append(cur)
            cur = []
        else:
            cur.append(tok)
    return stmts, cur


def strip_attrs(stmt):
    """drop leading #[...] attributes"""
    while stmt and stmt[0] == ("op", "#"):
        j = matching(stmt, 1, "[", "]")
        stmt = stmt[j + 1:]
    return stmt


# ---------------------------------------------------------------- G2: SWAR
SWAR_OFFSETNZ = ("if block == 0 { return BLOCK_SIZE ; } for ( i , b ) in block . to_ne_bytes ( ) . iter ( ) "
                 ". copied ( ) . enumerate ( ) { if b != 0 { return i ; } } unreachable! ( )")
SWAR_UNIFORM = "usize :: from_ne_bytes ( [ b ; BLOCK_SIZE ] )"


def swar_expr(e, consts):
    k = e[0]
    if k == "id":
        return e[1]
    if k == "num":
        return str(e[1])
    if k == "bin":
        f = {"&": "w_and", "|": "w_or", "^": "w_xor"}[e[1]]
        return "(%s %s %s)" % (f, swar_expr(e[2], consts), swar_expr(e[3], consts))
    if k == "not":
        return "(w_not %s)" % swar_expr(e[1], consts)
    if k == "method" and e[2] == "wrapping_sub" and len(e[3]) == 1:
        return "(w_sub %s %s)" % (swar_expr(e[1], consts), swar_expr(e[3][0], consts))
    if k == "call" and e[1] == "usize::from_ne_bytes" and len(e[2]) == 1:
        return swar_expr(e[2][0], consts)          # identity on the byte-list word
    if k == "call" and e[1] == "uniform_block" and len(e[2]) == 1:
        return "(uniform_block W %s)" % swar_expr(e[2][0], consts)
    if k == "call" and e[1] == "offsetnz" and len(e[2]) == 1:
        return "(offsetnz W %s)" % swar_expr(e[2][0], consts)
    raise TranslationError("SWAR kernel: unsupported expression %r" % (e,))


# swar.rs: match_tail / match_block are read as Scan.first_bad by the loop translator (loops2v.py): their text is
# pinned.  The three loop shells themselves are translated (Generated/Loops.v) and proved equal to Scan.v's.
SWAR_LOOPS = []   # match_tail / match_block / offsetnz are translated (swarfns2v.py, G13) since round 12


def g2_swar(toks):
    out = []
    for fn, want in SWAR_LOOPS:
        hdr, body = fn_body(toks, fn)
        got = norm(hdr) + " { " + norm(body) + " }"
        if got != want:
            raise TranslationError("swar.rs loop shell %s changed (Scan.v models it by hand):\n   got  %s\n   want %s" % (fn, got, want))
    # BLOCK_SIZE
    i = find_item(toks, "const", "BLOCK_SIZE")
    j = i
    while toks[j] != ("op", ";"):
        j += 1
    if norm(toks[i:j]) != "const BLOCK_SIZE : usize = core :: mem :: size_of :: < usize > ( )":
        raise TranslationError("BLOCK_SIZE changed: " + norm(toks[i:j]))
    i = find_item(toks, "type", "ByteBlock")
    if norm(toks[i:i + 9]) != "type ByteBlock = [ u8 ; BLOCK_SIZE ] ;":
        raise TranslationError("ByteBlock changed: " + norm(toks[i:i + 9]))
    hdr, body = fn_body(toks, "uniform_block")
    if norm(hdr) != "fn uniform_block ( b : u8 ) -> usize" or norm(body) != SWAR_UNIFORM:
        raise TranslationError("uniform_block changed: %s { %s }" % (norm(hdr), norm(body)))
    for fn in ("match_uri_char_8_swar", "match_header_value_char_8_swar"):
        hdr, body = fn_body(toks, fn)
        if norm(hdr) != "fn %s ( block : ByteBlock ) -> usize" % fn:
            raise TranslationError(fn + " signature: " + norm(hdr))
        stmts, tail = split_stmts(body)
        lines = []
        for st in stmts:
            st = strip_attrs(st)
            if st[0] == ("ident", "const"):
                # const NAME : T = expr
                name = st[1][1]
                if st[2] != ("op", ":") or st[4] != ("op", "="):
                    raise TranslationError(fn + ": const shape: " + norm(st))
                lines.append("  let %s := %s in" % (name, swar_expr(parse_expr(st[5:]), None)))
            elif st[0] == ("ident", "let"):
                name = st[1][1]
                if st[2] == ("op", ":") and st[3][0] == "ident" and st[4] == ("op", "="):
                    st = st[:2] + st[4:]            # a redundant type annotation on a kernel local
                if st[2] != ("op", "="):
                    raise TranslationError(fn + ": let shape: " + norm(st))
                lines.append("  let %s := %s in" % (name, swar_expr(parse_expr(st[3:]), None)))
            else:
                raise TranslationError(fn + ": unsupported statement: " + norm(st))
        lines.append("  %s." % swar_expr(parse_expr(tail), None))
        out.append("Definition %s (W : nat) (block : list N) : nat :=\n%s\n" % (fn, "\n".join(lines)))
    return "\n".join(out)


# ---------------------------------------------------------------- G3: x86 kernels
X86_LANE = {  # intrinsic stem -> (lane op, arity)
    "max_epu8": ("max8", 2), "cmpeq_epi8": ("cmpeq8", 2),
}
X86_LANE_SI = {"or": "or8", "andnot": "andnot8", "and": "and8"}


def x86_kernel(toks, fn, prefix, bits):
    """prefix: `_mm_` or `_mm256_`; bits: 128 / 256"""
    lanes = bits // 8
    hdr, body = fn_body(toks, fn)
    if norm(hdr) != "fn %s ( buf : & [ u8 ] ) -> usize" % fn:
        raise TranslationError(fn + " signature: " + norm(hdr))
    stmts, tail = split_stmts(body)
    vec = {}           # vector variable -> lane expression
    ptr_ok = False
    loaded = None
    mask = None        # (variable, lane expr, cast width)
    lines = []

    def lane(e):
        if e[0] == "id":
            if e[1] not in vec:
                raise TranslationError("%s: unknown vector %s" % (fn, e[1]))
            return vec[e[1]]
        if e[0] == "call":
            name, args = e[1], e[2]
            if not name.startswith(prefix):
                raise TranslationError("%s: intrinsic %s is not a %d-bit intrinsic" % (fn, name, bits))
            stem = name[len(prefix):]
            if stem == "set1_epi8" and len(args) == 1:
                a0 = args[0]
                while a0[0] == "cast" and a0[2] in ("i8", "u8"):     # `b'\t' as i8`: the same byte
                    a0 = a0[1]
                if a0[0] == "num":
                    return "(set1 %d)" % (a0[1] & 255)
            if stem in X86_LANE and len(args) == X86_LANE[stem][1]:
                return "(%s %s)" % (X86_LANE[stem][0], " ".join(lane(a) for a in args))
            m = re.fullmatch(r"(or|andnot|and)_si%d" % bits, stem)
            if m and len(args) == 2:
                return "(%s %s %s)" % (X86_LANE_SI[m.group(1)], lane(args[0]), lane(args[1]))
            raise TranslationError("%s: intrinsic %s is outside the vocabulary" % (fn, name))
        raise TranslationError("%s: unsupported vector expression %r" % (fn, e))

    for st in stmts:
        st = strip_attrs(st)
        if not st:
            continue
        s = norm(st)
        if st[0] == ("ident", "use"):
            if not re.fullmatch(r"use core :: arch :: x86(_64)? :: \*", s):
                raise TranslationError(fn + ": unexpected use: " + s)
            continue
        if st[0] == ("ident", "debug_assert!"):
            if s != "debug_assert! ( buf . len ( ) >= %d )" % lanes:
                raise TranslationError(fn + ": debug_assert changed: " + s)
            continue
        if st[0] != ("ident", "let"):
            raise TranslationError(fn + ": unsupported statement: " + s)
        name = st[1][1]
        j = 2
        if st[j] == ("op", ":"):
            if st[j + 1][1] != "__m%di" % bits:
                raise TranslationError(fn + ": vector type: " + s)
            j += 2
        if st[j] != ("op", "="):
            raise TranslationError(fn + ": let shape: " + s)
        rhs = st[j + 1:]
        r = norm(rhs)
        if r == "buf . as_ptr ( )":
            ptr_ok = name
            continue
        m = re.fullmatch(r"%s(lddqu|loadu)_si%d \( (\w+) as \* const _ \)" % (prefix, bits), r)
        if m:
            if m.group(2) != ptr_ok:
                raise TranslationError(fn + ": load from something other than buf.as_ptr(): " + r)
            vec[name] = "dat"
            loaded = name
            continue
        if re.search(r"%sload_si%d|%sstream_load" % (prefix, bits, prefix), r):
            raise TranslationError(fn + ": aligned load intrinsic: " + r)
        m = re.fullmatch(r"%smovemask_epi8 \( (\w+) \) as u(\d+)" % prefix, r)
        if m:
            mask = (name, lane(("id", m.group(1))), int(m.group(2)))
            continue
        e = parse_expr(rhs)
        lines.append("  let %s := %s in" % (name, lane(e)))
        vec[name] = name
    if loaded is None or mask is None:
        raise TranslationError(fn + ": no load / no movemask found")
    if norm(tail) != "%s . trailing_ones ( ) as usize" % mask[0]:
        raise TranslationError(fn + ": tail expression: " + norm(tail))
    text = "Definition %s_lane (dat : N) : N :=\n%s\n  %s.\n" % (fn, "\n".join(lines), mask[1])
    text += ("Definition %s (block : list N) : nat :=\n"
             "  trailing_ones (firstn %d (map (fun dat => msb8 (%s_lane dat)) block)).\n"
             "Definition %s_lanes : nat := %d.\n" % (fn, mask[2], fn, fn, lanes))
    return text


# (the name of the local holding the kernel's result is free: (?P<v>..) and its back-references)
LOOP_RE = (r"while bytes \. as_ref \( \) \. len \( \) >= (\d+) \{ let (?P<v>\w+) = (\w+) \( bytes \. as_ref \( \) \) ; "
           r"bytes \. advance \( (?P=v) \) ; if (?P=v) != (\d+) \{ return ; \} \} "
           r"super :: swar :: (\w+) \( bytes \)(?: ;)?")
NEON_LOOP_RE = (r"while bytes \. as_ref \( \) \. len \( \) >= (\d+) \{ unsafe \{ let (?P<v>\w+) = (\w+) "
                r"\( bytes \. as_ref \( \) \. as_ptr \( \) \) ; bytes \. advance \( (?P=v) \) ; "
                r"if (?P=v) != (\d+) \{ return ; \} \} \} super :: swar :: (\w+) \( bytes \)(?: ;)?")


def g4_loop(toks, fn, modname, regex):
    hdr, body = fn_body(toks, fn)
    if norm(hdr) != "fn %s ( bytes : & mut Bytes )" % fn:
        raise TranslationError("%s::%s signature: %s" % (modname, fn, norm(hdr)))
    m = re.fullmatch(regex, norm(body))
    if not m:
        raise TranslationError("%s::%s is no longer the block loop the model assumes:\n  %s"
                               % (modname, fn, norm(body)))
    return int(m.group(1)), m.group(3), int(m.group(4)), m.group(5)


def g34_x86(toks, modname, prefix, bits, kernels):
    out = []
    for fn in kernels:
        out.append(x86_kernel(toks, fn, prefix, bits))
    for fn in ("match_uri_vectored", "match_header_value_vectored"):
        G, kern, R, fb = g4_loop(toks, fn, modname, LOOP_RE)
        if kern not in kernels:
            raise TranslationError("%s::%s calls unknown kernel %s" % (modname, fn, kern))
        if fb != fn:
            raise TranslationError("%s::%s falls back to swar::%s" % (modname, fn, fb))
        out.append("Definition %s_%s (fallback : P unit) (fuel : nat) : P unit :=\n"
                   "  simd_loop fuel %d %s_lanes %d %s fallback.\n" % (modname, fn, G, kern, R, kern))
    return "\n".join(out)


# ---------------------------------------------------------------- G3: NEON
NEON_OFFSETZ = "offsetnz ( vmvnq_u8 ( x ) )"
NEON_OFFSETNZ = ("let x = vreinterpretq_u64_u8 ( x ) ; let low : u64 = vgetq_lane_u64 :: < 0 > ( x ) ; "
                 "let high : u64 = vgetq_lane_u64 :: < 1 > ( x ) ; # [ inline ] fn clz ( x : u64 ) -> u32 { "
                 "for ( i , b ) in x . to_ne_bytes ( ) . iter ( ) . copied ( ) . enumerate ( ) { if b != 0 { "
                 "return i as u32 ; } } 8 } if low != 0 { clz ( low ) } else if high != 0 { return 8 + clz "
                 "( high ) ; } else { return 16 ; }")
NEON_BUILD_BITMAP = ("let mut bitmap_0_7 = [ 0u8 ; 16 ] ; let mut bitmap_8_15 = [ 0u8 ; 16 ] ; let mut i = 0 ; "
                     "while i < 256 { if bit_set ( i as u8 ) { let ( lo , hi ) = ( i & 0x0F , i >> 4 ) ; "
                     "if i < 128 { bitmap_0_7 [ lo ] |= 1 << hi ; } else { bitmap_8_15 [ lo ] |= 1 << hi ; } } "
                     "i += 1 ; } ( bitmap_0_7 , bitmap_8_15 )")
NEON_LANE2 = {"vandq_u8": "and8", "vorrq_u8": "or8", "vbicq_u8": "bic8", "vceqq_u8": "cmpeq8",
              "vcleq_u8": "cle8"}


def neon_kernel(toks, fn):
    hdr, body = fn_body(toks, fn)
    if norm(hdr) != "fn %s ( ptr : * const u8 ) -> usize" % fn:
        raise TranslationError(fn + " signature: " + norm(hdr))
    stmts, tail = split_stmts(body)
    vec = {}        # variable -> ("lane", expr) | ("table", coq list name)
    lines = []

    def lane(e):
        if e[0] == "id":
            if e[1] in vec and vec[e[1]][0] == "lane":
                return vec[e[1]][1]
            raise TranslationError("%s: %s is not a lane vector" % (fn, e[1]))
        if e[0] == "call":
            name, args = e[1], e[2]
            if name == "vdupq_n_u8" and len(args) == 1 and args[0][0] == "num":
                return "(set1 %d)" % args[0][1]
            if name in NEON_LANE2 and len(args) == 2:
                return "(%s %s %s)" % (NEON_LANE2[name], lane(args[0]), lane(args[1]))
            if name == "vmvnq_u8" and len(args) == 1:
                return "(mvn8 %s)" % lane(args[0])
            if name == "vshrq_n_u8" and len(args) == 2 and args[1][0] == "num":
                return "(shr8 %d %s)" % (args[1][1], lane(args[0]))
            if name == "vqtbl1q_u8" and len(args) == 2 and args[0][0] == "id" \
                    and vec.get(args[0][1], ("", ""))[0] == "table":
                return "(tbl8 %s %s)" % (vec[args[0][1]][1], lane(args[1]))
            raise TranslationError("%s: intrinsic %s is outside the vocabulary" % (fn, name))
        raise TranslationError("%s: unsupported vector expression %r" % (fn, e))

    consts = {}
    for st in stmts:
        st = strip_attrs(st)
        if not st:
            continue
        s = norm(st)
        if s == "let bitmaps = BITMAPS":
            continue
        if s == "let ( bitmap_0_7 , _bitmap_8_15 ) = bitmaps":
            consts["bitmap_0_7"] = "BITMAP_0_7"
            continue
        m = re.fullmatch(r"const (\w+) : \[ u8 ; 16 \] = \[ ([0-9 ,]+) \]", s)
        if m:
            vals = [int(x) for x in m.group(2).replace(" ", "").split(",") if x]
            if len(vals) != 16:
                raise TranslationError(fn + ": table length: " + s)
            lines.append("  let %s := [%s] in" % (m.group(1), "; ".join(map(str, vals))))
            consts[m.group(1)] = m.group(1)
            continue
        if st[0] != ("ident", "let") or st[2] != ("op", "="):
            raise TranslationError(fn + ": unsupported statement: " + s)
        name = st[1][1]
        r = norm(st[3:])
        if r == "vld1q_u8 ( ptr )":
            vec[name] = ("lane", "dat")
            continue
        m = re.fullmatch(r"vld1q_u8 \( (\w+) \. as_ptr \( \) \)", r)
        if m:
            if m.group(1) not in consts:
                raise TranslationError(fn + ": load of unknown table " + m.group(1))
            vec[name] = ("table", consts[m.group(1)])
            continue
        e = parse_expr(st[3:])
        lines.append("  let %s := %s in" % (name, lane(e)))
        vec[name] = ("lane", name)
    m = re.fullmatch(r"offsetz \( (\w+) \) as usize", norm(tail))
    if not m:
        raise TranslationError(fn + ": tail expression: " + norm(tail))
    text = "Definition %s_lane (dat : N) : N :=\n%s\n  %s.\n" % (fn, "\n".join(lines), lane(("id", m.group(1))))
    text += ("Definition %s (block : list N) : nat :=\n"
             "  neon_offsetz (map %s_lane block).\n"
             "Definition %s_lanes : nat := 16.\n" % (fn, fn, fn))
    return text


def g3_neon(toks):
    out = []
    hdr, body = fn_body(toks, "bit_set")
    if norm(hdr) != "fn bit_set ( x : u8 ) -> bool" or norm(body[:4]) != "matches! ( x ,":
        raise TranslationError("neon::bit_set changed: " + norm(hdr) + norm(body[:4]))
    alts = parse_pattern_alts(body[4:matching(body, 1, "(", ")")])
    out.append("Definition neon_bit_set (b : N) : bool :=\n    %s.\n" % alts_to_coq(alts))
    hdr, body = fn_body(toks, "build_bitmap")
    if norm(body) != NEON_BUILD_BITMAP:
        raise TranslationError("neon::build_bitmap changed: " + norm(body))
    i = find_item(toks, "const", "BITMAPS")
    if norm(toks[i:i + 21]) != "const BITMAPS : ( [ u8 ; 16 ] , [ u8 ; 16 ] ) = build_bitmap ( ) ;":
        raise TranslationError("neon::BITMAPS changed: " + norm(toks[i:i + 21]))
    # build_bitmap, transcribed: bit `hi` of entry `lo` of the half selected by i < 128
    out.append(
        "Definition neon_bitmap_entry (upper : bool) (lo : nat) : N :=\n"
        "  fold_left (fun acc hi =>\n"
        "      let i := (N.of_nat lo + 16 * N.of_nat hi)%N in\n"
        "      if neon_bit_set i && (if upper then 128 <=? i else i <? 128)\n"
        "      then N.lor acc (N.shiftl 1 (N.of_nat hi)) else acc) (seq 0 16) 0.\n"
        "Definition BITMAP_0_7 : list N := map (fun lo => neon_bitmap_entry false lo mod 256) (seq 0 16).\n"
        "Definition BITMAP_8_15 : list N := map (fun lo => neon_bitmap_entry true lo mod 256) (seq 0 16).\n")
    hdr, body = fn_body(toks, "offsetz")
    if norm(hdr) != "fn offsetz ( x : uint8x16_t ) -> u32" or norm(body) != NEON_OFFSETZ:
        raise TranslationError("neon::offsetz changed: " + norm(body))
    hdr, body = fn_body(toks, "offsetnz")
    def untyped(t):
        # `let x: T = e` and `let x = e` are the same statement (the annotation is checked by rustc)
        return re.sub(r"\blet (mut )?(\w+) : [^=;]+ =", r"let \1\2 =", t)
    if norm(hdr) != "fn offsetnz ( x : uint8x16_t ) -> u32" or untyped(norm(body)) != untyped(NEON_OFFSETNZ):
        raise TranslationError("neon::offsetnz changed:\n  " + norm(body))
    kernels = ("match_header_name_char_16_neon", "match_url_char_16_neon", "match_header_value_char_16_neon")
    for fn in kernels:
        out.append(neon_kernel(toks, fn))
    for fn in ("match_header_name_vectored", "match_header_value_vectored", "match_uri_vectored"):
        G, kern, R, fb = g4_loop(toks, fn, "neon", NEON_LOOP_RE)
        if kern not in kernels:
            raise TranslationError("neon::%s calls unknown kernel %s" % (fn, kern))
        if fb != fn:
            raise TranslationError("neon::%s falls back to swar::%s" % (fn, fb))
        out.append("Definition neon_%s (fallback : P unit) (fuel : nat) : P unit :=\n"
                   "  simd_loop fuel %d %s_lanes %d %s fallback.\n" % (fn, G, kern, R, kern))
    return "\n".join(out)


# ---------------------------------------------------------------- G5: cfg lattice, shims, runtime dispatch
def parse_cfg(toks):
    """cfg predicate -> Coq boolean expression over e : cfgenv"""
    p = [0]

    def pred():
        k, v = toks[p[0]]
        if v in ("all", "any", "not"):
            p[0] += 1
            assert toks[p[0]] == ("op", "("), toks[p[0]]
            p[0] += 1
            subs = []
            while toks[p[0]] != ("op", ")"):
                subs.append(pred())
                if toks[p[0]] == ("op", ","):
                    p[0] += 1
            p[0] += 1
            if v == "not":
                if len(subs) != 1:
                    raise TranslationError("cfg not() arity")
                return "(negb %s)" % subs[0]
            unit = "true" if v == "all" else "false"
            op = " && " if v == "all" else " || "
            return "(" + op.join(subs) + ")" if subs else unit
        if v == "target_arch":
            p[0] += 1
            assert toks[p[0]] == ("op", "="), toks[p[0]]
            arch = toks[p[0] + 1][1].strip('"')
            p[0] += 2
            names = {"x86": "X86", "x86_64": "X86_64", "aarch64": "AArch64"}
            if arch not in names:
                raise TranslationError("cfg: unknown target_arch " + arch)
            return "(arch_eqb (ce_arch e) %s)" % names[arch]
        names = {"httparse_simd": "ce_simd", "httparse_simd_target_feature_sse42": "ce_sse42",
                 "httparse_simd_target_feature_avx2": "ce_avx2", "httparse_simd_neon_intrinsics": "ce_neon"}
        if v in names:
            p[0] += 1
            return "(%s e)" % names[v]
        raise TranslationError("cfg: unknown predicate %r" % v)

    r = pred()
    if p[0] != len(toks):
        raise TranslationError("cfg: trailing tokens")
    return r


def module_facts(name, toks):
    """top-level `pub fn` names and sibling modules referenced through `super::` of one module file"""
    exports = []
    depth = 0
    for i, t in enumerate(toks):
        if t == ("op", "{"):
            depth += 1
        elif t == ("op", "}"):
            depth -= 1
        elif depth == 0 and t == ("ident", "fn"):
            j = i - 1
            vis = []
            while j >= 0 and toks[j][0] == "ident" and toks[j][1] in ("pub", "unsafe", "const"):
                vis.append(toks[j][1])
                j -= 1
            if "pub" in vis:
                exports.append(toks[i + 1][1])
    refs = set()
    for i in range(len(toks) - 2):
        if toks[i] == ("ident", "super") and toks[i + 1] == ("op", "::") and toks[i + 2][0] == "ident":
            refs.add(toks[i + 2][1])
    return exports, sorted(refs)


def g5_cfg(mod_toks, rt_toks, files=None):
    """items of simd/mod.rs that are not part of the verif hook, each with its cfg"""
    out = []
    items = []      # (kind, name, cfg expr, body toks or None)
    i = 0
    toks = mod_toks
    while i < len(toks):
        cfgs = []
        hook = False
        while toks[i] == ("op", "#"):
            j = matching(toks, i + 1, "[", "]")
            inner = toks[i + 2:j]
            if inner and inner[0] == ("ident", "cfg"):
                k = matching(inner, 1, "(", ")")
                if norm(inner[2:k]) == "httparse_verif":
                    hook = True
                else:
                    cfgs.append(parse_cfg(inner[2:k]))
            i = j + 1
        cfg = "(" + " && ".join(cfgs) + ")" if cfgs else "true"
        if toks[i] == ("ident", "pub") and toks[i + 1] == ("ident", "use"):
            j = i
            while toks[j] != ("op", ";"):
                j += 1
            m = re.fullmatch(r"pub use self :: (\w+) :: \*", norm(toks[i:j]))
            if not m:
                raise TranslationError("simd/mod.rs: unexpected re-export: " + norm(toks[i:j]))
            if not hook:
                items.append(("use", m.group(1), cfg, None))
            i = j + 1
        elif toks[i] == ("ident", "mod") or (toks[i] == ("ident", "pub") and toks[i + 1] == ("ident", "mod")):
            if toks[i] == ("ident", "pub"):
                i += 1
            name = toks[i + 1][1]
            if toks[i + 2] == ("op", ";"):
                if not hook:
                    items.append(("mod", name, cfg, None))
                i += 3
            else:
                j = matching(toks, i + 2, "{", "}")
                if not hook:
                    items.append(("inline", name, cfg, toks[i + 3:j]))
                i = j + 1
        else:
            raise TranslationError("simd/mod.rs: unexpected item at: " + norm(toks[i:i + 8]))
    out.append("(* items of src/simd/mod.rs: kind, name, cfg predicate *)")
    out.append("Definition simd_items (e : cfgenv) : list (item_kind * string * bool) :=\n  [ "
               + ";\n    ".join('(%s, "%s", %s)' % ({"use": "IUse", "mod": "IMod", "inline": "IInline"}[k], n, c)
                                for k, n, c, _ in items) + " ].\n")
    # the compile-time shims: which module each of the three entry points forwards to
    shims = []
    for k, n, c, body in items:
        if k != "inline":
            continue
        for fn in ("match_header_name_vectored", "match_uri_vectored", "match_header_value_vectored"):
            hdr, fb = fn_body(body, fn)
            m = re.fullmatch(r"(?:unsafe \{ )?(?:super|crate :: simd) :: (\w+) :: (\w+) \( b \)(?: ;)?(?: \})?", norm(fb))
            if not m or m.group(2) != fn:
                raise TranslationError("simd/mod.rs %s::%s: unexpected body: %s" % (n, fn, norm(fb)))
            shims.append((n, fn, m.group(1)))
    out.append("Definition simd_shims : list (string * string * string) :=\n  [ "
               + ";\n    ".join('("%s", "%s", "%s")' % s for s in shims) + " ].\n")
    # runtime.rs
    consts = {}
    for name in ("AVX2", "SSE42", "NOP"):
        i = find_item(rt_toks, "const", name)
        if norm(rt_toks[i + 2:i + 5]) != ": u8 =":
            raise TranslationError("runtime.rs const %s shape" % name)
        consts[name] = byte_value(rt_toks[i + 5])
    hdr, body = fn_body(rt_toks, "detect_runtime_feature")
    # a decision list: `if is_x86_feature_detected!("f") { ID }` tests in order (an else-if chain or early returns),
    # then the default; it must read: avx2 -> AVX2, sse4.2 -> SSE42, otherwise NOP
    import rsparse as _rp

    def _decisions(blk):
        out = []
        def val(e):
            if e[0] == "block" and not e[1] and e[2] is not None:
                return val(e[2])
            if e[0] == "block" and len(e[1]) == 1 and e[2] is None and e[1][0][0] == "expr" and e[1][0][1][0] == "return":
                return val(e[1][0][1][1])
            if e[0] == "return":
                return val(e[1])
            if e[0] == "path":
                return e[1]
            raise TranslationError("runtime.rs detect_runtime_feature: value " + repr(e)[:80])
        def feat(c):
            if c[0] == "macro" and c[1] == "is_x86_feature_detected" and len(c[2]) == 1 and c[2][0][0] == "str":
                return c[2][0][1].strip('"')
            raise TranslationError("runtime.rs detect_runtime_feature: condition " + repr(c)[:80])
        def chain(e):
            # if c { v } [else <chain or block>]
            out.append((feat(e[1]), val(e[2])))
            if e[3] is None:
                return False
            if e[3][0] == "if":
                return chain(e[3])
            out.append((None, val(e[3])))
            return True
        done = False
        for st in blk[1]:
            if done or st[0] != "expr" or st[1][0] != "if":
                raise TranslationError("runtime.rs detect_runtime_feature: statement " + repr(st)[:80])
            done = chain(st[1])
        if blk[2] is not None:
            if done:
                raise TranslationError("runtime.rs detect_runtime_feature: code after the default")
            if blk[2][0] == "if":
                done = chain(blk[2])
            else:
                out.append((None, val(blk[2])))
                done = True
        if not done:
            raise TranslationError("runtime.rs detect_runtime_feature: no default")
        return out
    dec = _decisions(_rp.RParser(body).parse_block_body(None))
    if dec != [("avx2", "AVX2"), ("sse4.2", "SSE42"), (None, "NOP")]:
        raise TranslationError("runtime.rs detect_runtime_feature changed: " + repr(dec))
    # any further `const NAME: u8 = <literal>;` of runtime.rs (e.g. a name for the "not detected yet" value 0) is
    # resolved to its literal before the two texts below are compared
    extra = {}
    for i in range(len(rt_toks) - 6):
        if rt_toks[i] == ("ident", "const") and rt_toks[i + 1][0] == "ident" and rt_toks[i + 1][1] not in consts \
                and norm(rt_toks[i + 2:i + 5]) == ": u8 =" and rt_toks[i + 6] == ("op", ";"):
            try:
                extra[rt_toks[i + 1][1]] = str(byte_value(rt_toks[i + 5]))
            except Exception:
                pass

    def rnorm(toks):
        return norm([("int", extra[t[1]]) if t[0] == "ident" and t[1] in extra else t for t in toks])
    # get_runtime_feature itself is TRANSLATED (runtime2v.py, G15 -> Generated/Runtime.v) since round 14; what stays
    # pinned here is what its translation rests on: the cell starts at 0 and detect() returns one of three non-zero ids
    i = find_item(rt_toks, "static", "RUNTIME_FEATURE")
    if rnorm(rt_toks[i:i + 12]) != "static RUNTIME_FEATURE : AtomicU8 = AtomicU8 :: new ( 0 ) ;":
        raise TranslationError("runtime.rs RUNTIME_FEATURE changed: " + norm(rt_toks[i:i + 12]))
    out.append("Definition RT_AVX2 : N := %d.\nDefinition RT_SSE42 : N := %d.\nDefinition RT_NOP : N := %d.\n"
               % (consts["AVX2"], consts["SSE42"], consts["NOP"]))
    disp = []
    hdr, body = fn_body(rt_toks, "match_header_name_vectored")
    if norm(body) != "super :: swar :: match_header_name_vectored ( bytes ) ;":
        raise TranslationError("runtime.rs match_header_name_vectored changed: " + norm(body))
    for fn in ("match_uri_vectored", "match_header_value_vectored"):
        hdr, body = fn_body(rt_toks, fn)
        m = re.fullmatch(r"unsafe \{ match get_runtime_feature \( \) \{ (\w+) => (\w+) :: (\w+) \( bytes \) , "
                         r"(\w+) => (\w+) :: (\w+) \( bytes \) , _ => super :: swar :: (\w+) \( bytes \) , \} \}",
                         norm(body))
        if not m:
            raise TranslationError("runtime.rs %s changed: %s" % (fn, norm(body)))
        for c, mod, f in ((m.group(1), m.group(2), m.group(3)), (m.group(4), m.group(5), m.group(6))):
            if c not in consts or f != fn:
                raise TranslationError("runtime.rs %s: arm %s => %s::%s" % (fn, c, mod, f))
            disp.append((fn, consts[c], mod))
        if m.group(7) != fn:
            raise TranslationError("runtime.rs %s: default arm calls %s" % (fn, m.group(7)))
    if files:
        ex, rf = [], []
        for name, toks in files:
            e, r = module_facts(name, toks)
            ex.append('("%s", [%s])' % (name, "; ".join('"%s"' % x for x in e)))
            rf.append('("%s", [%s])' % (name, "; ".join('"%s"' % x for x in r)))
        out.append("(* per module file: public functions; sibling modules referenced through super:: *)\n"
                   "Definition module_exports : list (string * list string) :=\n  [ " + ";\n    ".join(ex) + " ].\n")
        out.append("Definition module_refs : list (string * list string) :=\n  [ " + ";\n    ".join(rf) + " ].\n")
    out.append("(* runtime dispatch: entry point, cached id, module; any other id -> swar *)\n"
               "Definition runtime_dispatch : list (string * N * string) :=\n  [ "
               + ";\n    ".join('("%s", %d, "%s")' % d for d in disp) + " ].\n")
    return "\n".join(out)


# ---------------------------------------------------------------- driver
HEADER = "(* GENERATED by translator/rs2v.py from %s -- do not edit *)\n"



# ---------------------------------------------------------------- G6: names (C19)
def strip_attr_items(toks, pred):
    """remove items annotated with an attribute #[...] for which pred(attr tokens) holds"""
    out, removed, i = [], [], 0
    while i < len(toks):
        if toks[i] == ("op", "#") and i + 1 < len(toks) and toks[i + 1] == ("op", "["):
            j = matching(toks, i + 1, "[", "]")
            attr = toks[i + 2:j]
            if pred(attr):
                k = j + 1
                while toks[k] == ("op", "#"):
                    k = matching(toks, k + 1, "[", "]") + 1
                start, depth = k, 0
                while True:
                    v = toks[k][1]
                    if v in "([":
                        depth += 1
                    elif v in ")]":
                        depth -= 1
                    elif v == ";" and depth == 0:
                        k += 1
                        break
                    elif v == "{" and depth == 0:
                        k = matching(toks, k, "{", "}") + 1
                        break
                    k += 1
                removed.append(toks[start:k])
                i = k
                continue
        out.append(toks[i])
        i += 1
    return out, removed


def coq_str(s):
    return '"' + s.replace('"', '""') + '"'


def coq_list(xs):
    return "[" + "; ".join(xs) + "]"


def g6_names(repo):
    """per source file: the roots of all paths, the names brought in by `use`, macros invoked, method names,
       all identifiers; crate level: no_std attribute, extern crates, items defined, items gated on feature std"""
    src = os.path.join(repo, "src")
    rels = []
    for root, _, fs in os.walk(src):
        for f in fs:
            if f.endswith(".rs"):
                rels.append(os.path.relpath(os.path.join(root, f), repo))
    rels.sort()
    defined, std_gated, externs, files = set(), [], [], []
    no_std = False
    for rel in rels:
        with open(os.path.join(repo, rel)) as f:
            toks = lex(f.read())
        if rel == "src/lib.rs":
            pat = [("op", "#"), ("op", "!"), ("op", "["), ("ident", "cfg_attr"), ("op", "("), ("ident", "not"), ("op", "("),
                   ("ident", "feature"), ("op", "="), ("str", '"std"'), ("op", ")"), ("op", ","), ("ident", "no_std"),
                   ("op", ")"), ("op", "]")]
            no_std = any(toks[i:i + len(pat)] == pat for i in range(len(toks)))
        toks, _ = strip_attr_items(toks, lambda a: a[:1] == [("ident", "test")] or
                                   (a[:1] == [("ident", "cfg")] and ("ident", "test") in a))
        toks, gated = strip_attr_items(toks, lambda a: a[:1] == [("ident", "cfg")] and ("str", '"std"') in a)
        for g in gated:
            std_gated.append((rel, norm(g)))
        roots, stdpaths, imports, macros, methods, idents = set(), set(), set(), set(), set(), set()
        i = 0
        while i < len(toks):
            k, v = toks[i]
            if k == "ident":
                idents.add(v.rstrip("!"))
                if v.endswith("!"):
                    macros.add(v[:-1])
                if v in ("struct", "enum", "fn", "mod", "trait", "type", "const", "static", "union") and \
                        i + 1 < len(toks) and toks[i + 1][0] == "ident" and \
                        toks[i + 1][1] not in ("fn", "unsafe", "mut", "_") and (i == 0 or toks[i - 1] != ("op", "*")):
                    defined.add(toks[i + 1][1])
                if v == "macro_rules!" and i + 1 < len(toks) and toks[i + 1][0] == "ident":
                    defined.add(toks[i + 1][1])
                if v == "extern" and toks[i + 1] == ("ident", "crate"):
                    externs.append(toks[i + 2][1])
                if v == "use":
                    j = i + 1
                    while toks[j] != ("op", ";"):
                        j += 1
                    body = toks[i + 1:j]
                    root = body[0][1]
                    # every identifier that ends a path segment list or follows `as` is brought into scope
                    for q, (kk, vv) in enumerate(body):
                        if kk == "ident" and vv != "as" and (q + 1 == len(body) or body[q + 1][1] in (",", "}")):
                            imports.add((root, vv))
                    if body[-1] == ("op", "*"):
                        imports.add((root, "".join(vv for _, vv in body)))
                if i + 1 < len(toks) and toks[i + 1] == ("op", "::") and \
                        (i == 0 or toks[i - 1] not in (("op", "::"), ("op", "."))):
                    j, segs = i, [v]
                    while j + 2 < len(toks) and toks[j + 1] == ("op", "::") and toks[j + 2][0] == "ident":
                        segs.append(toks[j + 2][1])
                        j += 2
                    roots.add(v)
                    if v in ("std", "alloc"):
                        stdpaths.add("::".join(segs))
                if i > 0 and toks[i - 1] == ("op", ".") and i + 1 < len(toks) and \
                        (toks[i + 1] == ("op", "(") or toks[i + 1] == ("op", "::")):
                    methods.add(v)
            i += 1
        files.append((rel, sorted(roots), sorted(stdpaths), sorted(imports), sorted(macros), sorted(methods), sorted(idents)))
    out = []
    out.append("Definition crate_no_std_attr : bool := %s." % ("true" if no_std else "false"))
    out.append("Definition crate_extern_crates : list string := %s." % coq_list(coq_str(x) for x in externs))
    out.append("Definition crate_defined : list string :=\n  %s." % coq_list(coq_str(x) for x in sorted(defined)))
    out.append("Definition crate_std_gated : list (string * string) :=\n  %s." %
               coq_list("(%s, %s)" % (coq_str(a), coq_str(b)) for a, b in std_gated))
    out.append("Record file_names := { fn_path : string; fn_roots : list string; fn_std_paths : list string;\n"
               "  fn_imports : list (string * string); fn_macros : list string; fn_methods : list string; fn_idents : list string }.")
    items = []
    for rel, roots, stdp, imps, macs, meths, ids in files:
        items.append("  {| fn_path := %s;\n     fn_roots := %s;\n     fn_std_paths := %s;\n     fn_imports := %s;\n"
                     "     fn_macros := %s;\n     fn_methods := %s;\n     fn_idents := %s |}" %
                     (coq_str(rel), coq_list(map(coq_str, roots)), coq_list(map(coq_str, stdp)),
                      coq_list("(%s, %s)" % (coq_str(a), coq_str(b)) for a, b in imps),
                      coq_list(map(coq_str, macs)), coq_list(map(coq_str, meths)), coq_list(map(coq_str, ids))))
    out.append("Definition crate_files : list file_names :=\n [\n" + ";\n".join(items) + " ].")
    return "\n\n".join(out) + "\n"


# ---------------------------------------------------------------- G8: public signatures (C04, static half)
def g8_sigs(repo):
    """every `pub struct` (with its fields) and every `pub fn` signature (with the header of the impl block it
       sits in) of src/lib.rs and src/iter.rs, test items and hooks removed, as normalised token text"""
    out = []
    for rel in ("src/lib.rs", "src/iter.rs"):
        with open(os.path.join(repo, rel)) as f:
            toks = lex(f.read())
        toks, _ = strip_attr_items(toks, lambda a: a[:1] == [("ident", "test")] or
                                   (a[:1] == [("ident", "cfg")] and ("ident", "test") in a))
        impl_stack = []      # (closing index, header text)
        i = 0
        while i < len(toks):
            k, v = toks[i]
            while impl_stack and i > impl_stack[-1][0]:
                impl_stack.pop()
            if (k, v) == ("ident", "impl") and (i == 0 or toks[i - 1][1] in (";", "}", "]", "{")):
                j = i
                while toks[j] != ("op", "{"):
                    j += 1
                impl_stack.append((matching(toks, j, "{", "}"), norm(toks[i:j])))
                i = j + 1
                continue
            if (k, v) == ("ident", "pub") and i + 1 < len(toks):
                j = i + 1
                while toks[j][1] in ("unsafe", "const", "extern") or toks[j][0] == "str":
                    j += 1
                if toks[j] == ("ident", "fn"):
                    e = j
                    depth = 0
                    while not (toks[e][1] in ("{", ";") and depth == 0):
                        if toks[e][1] in "([":
                            depth += 1
                        elif toks[e][1] in ")]":
                            depth -= 1
                        e += 1
                    ctx = impl_stack[-1][1] if impl_stack else "-"
                    out.append((rel, ctx, norm(toks[i:e])))
                    i = e
                    continue
                if toks[j] == ("ident", "struct"):
                    e = j
                    while toks[e][1] not in ("{", ";", "("):
                        e += 1
                    if toks[e] == ("op", "{"):
                        e = matching(toks, e, "{", "}") + 1
                    elif toks[e] == ("op", "("):
                        e = matching(toks, e, "(", ")") + 1
                    out.append((rel, "-", norm(toks[i:e])))
                    i = e
                    continue
            i += 1
    body = ";\n    ".join("(%s, %s, %s)" % (coq_str(a), coq_str(b), coq_str(c)) for a, b, c in out)
    return "Definition crate_sigs : list (string * string * string) :=\n  [ " + body + " ].\n"


# ---------------------------------------------------------------- G7: cost copies (C20)
def cost_copy(text, origin):
    """the same definitions compiled against CursorC.v (cursor with work counters) instead of Cursor.v"""
    t = text
    t = t.replace("From HV Require Import Cursor Scan Intrinsics.",
                  "From HV Require Import CursorC Intrinsics.\nFrom HV.Generated Require Import CScan.")
    t = t.replace("From HV Require Import Cursor Scan.",
                  "From HV Require Import CursorC.\nFrom HV.Generated Require Import CScan.")
    t = t.replace("From HV Require Import Cursor.", "From HV Require Import CursorC.")
    t = t.replace("From HV.Generated Require Import Classes Swar Sse42 Avx2 Neon Cfg.",
                  "From HV.Generated Require Import Classes Swar CSse42 CAvx2 CNeon Cfg.")
    t = re.sub(r"\| Part =>", "| Part _ _ =>", t)
    t = re.sub(r"\| Fail (\w+) =>", r"| Fail \1 _ _ =>", t)
    if "CursorC" not in t:
        raise TranslationError("cost copy of %s: import line not recognised" % origin)
    return ("(* GENERATED by translator/rs2v.py: textual copy of %s compiled against CursorC.v -- do not edit *)\n" % origin) + t


def write_if_changed(path, text):
    old = None
    if os.path.exists(path):
        with open(path) as f:
            old = f.read()
    if old != text:
        with open(path, "w") as f:
            f.write(text)
        return True
    return False


def main():
    repo, outdir = sys.argv[1], sys.argv[2]
    os.makedirs(outdir, exist_ok=True)

    # the block kernels are identified by ROLE (the function the scanner shell calls on `bytes.as_ref()`), not by
    # name: a kernel that was renamed is given its canonical name back before anything is translated
    CANON = {"src/simd/sse42.rs": {"match_uri_vectored": "match_url_char_16_sse",
                                   "match_header_value_vectored": "match_header_value_char_16_sse"},
             "src/simd/avx2.rs": {"match_uri_vectored": "match_url_char_32_avx",
                                  "match_header_value_vectored": "match_header_value_char_32_avx"},
             "src/simd/neon.rs": {"match_uri_vectored": "match_url_char_16_neon",
                                  "match_header_value_vectored": "match_header_value_char_16_neon",
                                  "match_header_name_vectored": "match_header_name_char_16_neon"}}

    def toks(rel):
        with open(os.path.join(repo, rel)) as f:
            t = lex(f.read())
        if rel.startswith("src/simd/") and rel != "src/simd/mod.rs":
            # a private `const NAME: usize = <literal>;` (e.g. a name for the chunk width) is read as its literal
            lits = {}
            for i in range(len(t) - 6):
                if t[i] == ("ident", "const") and t[i + 1][0] == "ident" and t[i + 2] == ("op", ":") \
                        and t[i + 3] == ("ident", "usize") and t[i + 4] == ("op", "=") and t[i + 5][0] == "num" \
                        and t[i + 6] == ("op", ";"):
                    lits[t[i + 1][1]] = t[i + 5]
            if lits:
                out, i = [], 0
                while i < len(t):
                    if t[i] == ("ident", "const") and i + 1 < len(t) and t[i + 1][1] in lits:
                        i += 7                      # drop the declaration itself
                        continue
                    out.append(lits[t[i][1]] if t[i][0] == "ident" and t[i][1] in lits else t[i])
                    i += 1
                t = out
        for shell, canon in CANON.get(rel, {}).items():
            try:
                _, body = fn_body(t, shell)
            except Exception:
                continue
            m = re.search(r"= (\w+) \( bytes \. as_ref \( \)", norm(body))
            if m and m.group(1) != canon and not any(x == ("ident", canon) for x in t):
                old_name = m.group(1)
                t = [("ident", canon) if x == ("ident", old_name) else x for x in t]
        return t

    errors = []
    files = {}

    def gen(name, fn):
        try:
            files[name] = fn()
        except TranslationError as e:
            errors.append("%s: %s" % (name, e))
        except (IndexError, AssertionError, KeyError) as e:
            errors.append("%s: source no longer has the expected shape (%r)" % (name, e))

    def classes():
        lib = toks("src/lib.rs")
        g1_byte_map_macro(toks("src/macros.rs"))
        return (HEADER % "src/lib.rs, src/macros.rs" +
                "From Coq Require Import NArith Bool.\nLocal Open Scope N_scope.\n\n" +
                g1_tables(lib) + "\n" + g1_predicates(lib))

    def swar():
        return (HEADER % "src/simd/swar.rs" +
                "From Coq Require Import List NArith Bool.\nFrom HV Require Import Intrinsics.\n"
                "Import ListNotations.\nLocal Open Scope N_scope.\n\n" + g2_swar(toks("src/simd/swar.rs")))

    def sse42():
        return (HEADER % "src/simd/sse42.rs" +
                "From Coq Require Import List NArith Bool.\nFrom HV Require Import Cursor Scan Intrinsics.\n"
                "Import ListNotations.\nLocal Open Scope N_scope.\n\n" +
                g34_x86(toks("src/simd/sse42.rs"), "sse42", "_mm_", 128,
                        ("match_url_char_16_sse", "match_header_value_char_16_sse")))

    def avx2():
        return (HEADER % "src/simd/avx2.rs" +
                "From Coq Require Import List NArith Bool.\nFrom HV Require Import Cursor Scan Intrinsics.\n"
                "Import ListNotations.\nLocal Open Scope N_scope.\n\n" +
                g34_x86(toks("src/simd/avx2.rs"), "avx2", "_mm256_", 256,
                        ("match_url_char_32_avx", "match_header_value_char_32_avx")))

    def neon():
        return (HEADER % "src/simd/neon.rs" +
                "From Coq Require Import List NArith Bool.\nFrom HV Require Import Cursor Scan Intrinsics.\n"
                "Import ListNotations.\nLocal Open Scope N_scope.\n\n" + g3_neon(toks("src/simd/neon.rs")))

    def cfg():
        return (HEADER % "src/simd/mod.rs, src/simd/runtime.rs" +
                "From Coq Require Import List NArith Bool String.\nFrom HV Require Import CfgBase.\n"
                "Import ListNotations.\nLocal Open Scope string_scope.\nLocal Open Scope N_scope.\n\n" +
                g5_cfg(toks("src/simd/mod.rs"), toks("src/simd/runtime.rs"),
                       [(m, toks("src/simd/%s.rs" % m)) for m in ("swar", "sse42", "avx2", "runtime", "neon")]))

    gen("Classes.v", classes)
    gen("Swar.v", swar)
    gen("Sse42.v", sse42)
    gen("Avx2.v", avx2)
    gen("Neon.v", neon)
    gen("Cfg.v", cfg)

    def names():
        return (HEADER % "src/**/*.rs (names, imports, macros, methods, std-gated items)" +
                "From Coq Require Import List String.\nImport ListNotations.\nLocal Open Scope string_scope.\n\n" +
                g6_names(repo))

    gen("Names.v", names)

    def sigs():
        return (HEADER % "src/lib.rs, src/iter.rs (public structs and fn signatures)" +
                "From Coq Require Import List String.\nImport ListNotations.\nLocal Open Scope string_scope.\n\n" +
                g8_sigs(repo))

    gen("Sigs.v", sigs)

    def lib():
        import lib2v
        text, api, errs = lib2v.generate(toks("src/lib.rs"), toks("src/macros.rs"))
        errors.extend("Lib.v: " + e for e in errs)
        files["LibApi.v"] = api
        return text

    gen("Lib.v", lib)

    def iterv():
        import iter2v
        text, errs = iter2v.generate(toks("src/iter.rs"))
        errors.extend("Iter.v: " + e for e in errs)
        return text

    gen("Iter.v", iterv)

    def loopsv():
        import loops2v
        text, errs = loops2v.generate({m: toks("src/simd/%s.rs" % m) for m in ("swar", "sse42", "avx2", "neon")})
        errors.extend("Loops.v: " + e for e in errs)
        return text

    gen("Loops.v", loopsv)

    def swarfns():
        import swarfns2v
        text, errs = swarfns2v.generate(toks("src/simd/swar.rs"))
        errors.extend("SwarFns.v: " + e for e in errs)
        return text

    gen("SwarFns.v", swarfns)

    def runtimev():
        import runtime2v
        text, errs = runtime2v.generate(toks("src/simd/runtime.rs"))
        errors.extend("Runtime.v: " + e for e in errs)
        return text

    gen("Runtime.v", runtimev)

    coqdir = os.path.dirname(os.path.abspath(outdir))

    def hand(name):
        with open(os.path.join(coqdir, name)) as f:
            return f.read()

    gen("CScan.v", lambda: cost_copy(hand("Scan.v"), "Scan.v"))
    gen("CModel.v", lambda: cost_copy(hand("Model.v"), "Model.v"))
    gen("CBackends.v", lambda: cost_copy(hand("Backends.v"), "Backends.v"))
    for nm in ("Sse42", "Avx2", "Neon"):
        if nm + ".v" in files:
            gen("C" + nm + ".v", lambda nm=nm: cost_copy(files[nm + ".v"], "Generated/" + nm + ".v"))
    changed = []
    for name, text in files.items():
        if write_if_changed(os.path.join(outdir, name), text):
            changed.append(name)
    for name in ("Classes.v", "Swar.v", "Sse42.v", "Avx2.v", "Neon.v", "Cfg.v"):
        if name not in files:
            # a stale file must not keep an old proof alive
            p = os.path.join(outdir, name)
            write_if_changed(p, "(* TRANSLATION FAILED -- see translator output *)\n"
                                "Definition translation_failed : False := I.\n")
    for e in errors:
        print("TRANSLATION-FAILURE " + e)
    print("translated: %d files, rewritten: %s" % (len(files), ",".join(changed) or "none"))
    sys.exit(2 if errors else 0)


if __name__ == "__main__":
    main()
