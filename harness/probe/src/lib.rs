#![no_std]
use core::panic::PanicInfo;

#[panic_handler]
fn panic(_: &PanicInfo) -> ! {
    loop {}
}

/// every public parse entry point, so that nothing of the crate is left out of the link unit
#[no_mangle]
pub extern "C" fn hv_probe(p: *const u8, n: usize) -> usize {
    // SAFETY: the caller passes a valid buffer (this function is never called; it only has to link)
    let buf = unsafe { core::slice::from_raw_parts(p, n) };
    let mut acc = 0usize;
    let mut h = [httparse::EMPTY_HEADER; 4];
    {
        let mut r = httparse::Request::new(&mut h);
        if let Ok(httparse::Status::Complete(k)) = r.parse(buf) {
            acc += k;
        }
    }
    {
        let mut r = httparse::Response::new(&mut h);
        if let Ok(httparse::Status::Complete(k)) = httparse::ParserConfig::default().parse_response(&mut r, buf) {
            acc += k;
        }
    }
    if let Ok(httparse::Status::Complete((k, _))) = httparse::parse_headers(buf, &mut h) {
        acc += k;
    }
    if let Ok(httparse::Status::Complete((k, _))) = httparse::parse_chunk_size(buf) {
        acc += k;
    }
    acc
}
