// hv-harness: runs the real httparse crate (path dependency on /repo, built from the
// working tree) on a case stream and prints one canonical observation line per case.
//
//   hv-harness run <cases-file>            -> observations on stdout
//   hv-harness guard <cases-file>          -> same, each buffer abutting PROT_NONE pages
//   hv-harness alloc <cases-file>          -> allocation counts per case
//   hv-harness work <cases-file>           -> C20 counters per case
//   hv-harness utf8 <n-random> <seed>      -> compares a transcription of the model's
//                                             utf8_valid with core::str::from_utf8
//   hv-harness tables                      -> class predicates as the crate sees them
//   hv-harness race <threads>              -> cold-start race on the runtime backend cache
//   hv-harness info                        -> build variant facts
//
// Case lines (tab separated):
//   A <id> <kind q|p|h|c> <entry 0..3> <cfg 0..127> <cap> <hex|->
//   H <id> <kind q|p> <cap> <ncalls> (<entry> <cfg> <ucap> <hex|->)*
//   S <id> <backend 0..3> <class 0..2> <align 0..63> <hex|->
//   K <id> <which u|v> <hex of BLOCK_SIZE bytes>
//   B <id> <backend-id to force (0 = reset)>        (sets the runtime cache; prints ok/NA)

use std::alloc::{GlobalAlloc, Layout, System};
use std::fmt::Write as _;
use std::io::{BufRead, BufWriter, Write};
use std::mem::MaybeUninit;
use std::sync::atomic::{AtomicUsize, Ordering};

use httparse::{Header, ParserConfig, Request, Response, Status};

// ---------------------------------------------------------------- counting allocator
struct Counting;
static ALLOCS: AtomicUsize = AtomicUsize::new(0);
// SAFETY: forwards to the system allocator
unsafe impl GlobalAlloc for Counting {
    unsafe fn alloc(&self, l: Layout) -> *mut u8 {
        ALLOCS.fetch_add(1, Ordering::Relaxed);
        System.alloc(l)
    }
    unsafe fn dealloc(&self, p: *mut u8, l: Layout) {
        System.dealloc(p, l)
    }
    unsafe fn realloc(&self, p: *mut u8, l: Layout, n: usize) -> *mut u8 {
        ALLOCS.fetch_add(1, Ordering::Relaxed);
        System.realloc(p, l, n)
    }
    unsafe fn alloc_zeroed(&self, l: Layout) -> *mut u8 {
        ALLOCS.fetch_add(1, Ordering::Relaxed);
        System.alloc_zeroed(l)
    }
}
#[global_allocator]
static GLOBAL: Counting = Counting;

// ---------------------------------------------------------------- helpers
fn unhex(s: &str) -> Vec<u8> {
    if s == "-" {
        // a real allocation, so that an empty buffer still has an address of its own
        return Vec::with_capacity(8);
    }
    let b = s.as_bytes();
    let mut v = Vec::with_capacity(b.len() / 2 + 8);
    let h = |c: u8| -> u8 {
        match c {
            b'0'..=b'9' => c - b'0',
            b'a'..=b'f' => c - b'a' + 10,
            b'A'..=b'F' => c - b'A' + 10,
            _ => panic!("bad hex"),
        }
    };
    let mut i = 0;
    while i + 1 < b.len() {
        v.push(h(b[i]) * 16 + h(b[i + 1]));
        i += 2;
    }
    v
}

fn hex(b: &[u8]) -> String {
    let mut s = String::with_capacity(b.len() * 2);
    for x in b {
        write!(s, "{:02x}", x).unwrap();
    }
    s
}

fn config(bits: u32) -> ParserConfig {
    let mut c = ParserConfig::default();
    c.allow_spaces_after_header_name_in_responses(bits & 1 != 0);
    c.allow_obsolete_multiline_headers_in_responses(bits & 2 != 0);
    c.allow_multiple_spaces_in_request_line_delimiters(bits & 4 != 0);
    c.allow_multiple_spaces_in_response_status_delimiters(bits & 8 != 0);
    c.allow_space_before_first_header_name(bits & 16 != 0);
    c.ignore_invalid_headers_in_responses(bits & 32 != 0);
    c.ignore_invalid_headers_in_requests(bits & 64 != 0);
    c
}

const MAXCAP: usize = 4096;
static SENT: [u8; MAXCAP + 1] = [b'S'; MAXCAP + 1];
const POISON: u8 = 0xA5;

fn sentinel(i: usize) -> Header<'static> {
    Header {
        // SAFETY-free: ASCII
        name: std::str::from_utf8(&SENT[i..i + 1]).unwrap(),
        value: &SENT[i..i],
    }
}

/// where a slice lies relative to the buffer: `off+len`, or `x<hex>` if outside
fn loc(buf: &[u8], p: *const u8, len: usize, out: &mut String) {
    let b0 = buf.as_ptr() as usize;
    let b1 = b0 + buf.len();
    let a = p as usize;
    let inside = a >= b0 && a.checked_add(len).map_or(false, |e| e <= b1);
    if inside {
        write!(out, "{}+{}", a - b0, len).unwrap();
    } else if len > (1 << 30) || a.checked_add(len).is_none() {
        // absurdly long or wrapping around the address space: not a slice of anything; never dereferenced here
        // (a field left by an EARLIER call may legitimately straddle the end of the current buffer when the
        // buffers of a history share one allocation: that one is printed by content below)
        write!(out, "y{}+{}", a.wrapping_sub(b0), len).unwrap();
    } else {
        // SAFETY: p/len describe a live slice handed out by the parser
        let s = unsafe { std::slice::from_raw_parts(p, len) };
        write!(out, "x{}", hex(s)).unwrap();
    }
}
fn loc_str(buf: &[u8], s: Option<&str>, out: &mut String) {
    match s {
        None => out.push('-'),
        Some(s) => loc(buf, s.as_ptr(), s.len(), out),
    }
}

/// one slot of a header array, read through a raw pointer:
/// `U` poison intact, `O<i>` sentinel i, `W<name>,<value>` a parsed header
fn slot(buf: &[u8], p: *const Header<'_>, out: &mut String) {
    let n = std::mem::size_of::<Header<'_>>();
    // SAFETY: p points into an array owned by the harness; reading it as bytes is always fine
    let raw = unsafe { std::slice::from_raw_parts(p as *const u8, n) };
    if raw.iter().all(|&b| b == POISON) {
        out.push('U');
        return;
    }
    // SAFETY: not poison, so the parser wrote a Header here (or it is a sentinel)
    let h: &Header<'_> = unsafe { &*p };
    let s0 = SENT.as_ptr() as usize;
    let np = h.name.as_ptr() as usize;
    if np >= s0 && np < s0 + MAXCAP && h.name.len() == 1 && h.value.is_empty() {
        write!(out, "O{}", np - s0).unwrap();
        return;
    }
    out.push('W');
    loc(buf, h.name.as_ptr(), h.name.len(), out);
    out.push(',');
    loc(buf, h.value.as_ptr(), h.value.len(), out);
}

fn slots(buf: &[u8], p: *const Header<'_>, n: usize, out: &mut String) {
    for i in 0..n {
        out.push(' ');
        // SAFETY: within the array
        slot(buf, unsafe { p.add(i) }, out);
    }
}

fn err_name(e: httparse::Error) -> &'static str {
    match e {
        httparse::Error::HeaderName => "HeaderName",
        httparse::Error::HeaderValue => "HeaderValue",
        httparse::Error::NewLine => "NewLine",
        httparse::Error::Status => "Status",
        httparse::Error::Token => "Token",
        httparse::Error::TooManyHeaders => "TooManyHeaders",
        httparse::Error::Version => "Version",
    }
}
fn status(r: &httparse::Result<usize>, out: &mut String) {
    match r {
        Ok(Status::Complete(n)) => write!(out, "C{}", n).unwrap(),
        Ok(Status::Partial) => out.push('P'),
        Err(e) => write!(out, "E{}", err_name(*e)).unwrap(),
    }
}
fn optnum<T: std::fmt::Display>(v: Option<T>, out: &mut String) {
    match v {
        None => out.push('-'),
        Some(v) => write!(out, "{}", v).unwrap(),
    }
}

fn poison_array(cap: usize) -> Vec<MaybeUninit<Header<'static>>> {
    let mut v: Vec<MaybeUninit<Header<'static>>> = Vec::with_capacity(cap);
    // SAFETY: MaybeUninit needs no initialisation; fill the bytes with the poison pattern
    unsafe {
        v.set_len(cap);
        std::ptr::write_bytes(v.as_mut_ptr() as *mut u8, POISON, cap * std::mem::size_of::<Header<'_>>());
    }
    v
}

// ---------------------------------------------------------------- one API call on a fresh value
fn api_case(kind: &str, entry: u32, cfg: u32, cap: usize, buf: &[u8], out: &mut String) {
    let conf = config(cfg);
    match kind {
        "c" => {
            match httparse::parse_chunk_size(buf) {
                Ok(Status::Complete((n, size))) => write!(out, "C{} size={}", n, size).unwrap(),
                Ok(Status::Partial) => out.push_str("P size=0"),
                Err(_) => out.push_str("EInvalidChunkSize size=0"),
            };
        }
        "h" => {
            let mut arr: Vec<Header<'_>> = (0..cap).map(sentinel).collect();
            let ap = arr.as_ptr();
            let mut exposed = String::new();
            let mut st = String::new();
            match httparse::parse_headers(buf, &mut arr) {
                Ok(Status::Complete((n, hs))) => {
                    write!(st, "C{}", n).unwrap();
                    slots(buf, hs.as_ptr(), hs.len(), &mut exposed);
                }
                Ok(Status::Partial) => st.push('P'),
                Err(e) => write!(st, "E{}", err_name(e)).unwrap(),
            }
            write!(out, "{} - - - |{} |", st, exposed).unwrap();
            slots(buf, ap, cap, out);
        }
        "q" => {
            let mut arr: Vec<Header<'_>> = (0..cap).map(sentinel).collect();
            let mut uarr = poison_array(cap);
            let (ap, up) = (arr.as_ptr(), uarr.as_ptr() as *const Header<'_>);
            let mut empty: [Header<'_>; 0] = [];
            let uninit = entry >= 2;
            {
                let mut req = if uninit { Request::new(&mut empty) } else { Request::new(&mut arr) };
                let r = match entry {
                    0 => req.parse(buf),
                    1 => conf.parse_request(&mut req, buf),
                    2 => req.parse_with_uninit_headers(buf, &mut uarr),
                    _ => conf.parse_request_with_uninit_headers(&mut req, buf, &mut uarr),
                };
                status(&r, out);
                out.push(' ');
                loc_str(buf, req.method, out);
                out.push(' ');
                loc_str(buf, req.path, out);
                out.push(' ');
                optnum(req.version, out);
                out.push_str(" |");
                slots(buf, req.headers.as_ptr(), req.headers.len(), out);
            }
            out.push_str(" |");
            slots(buf, if uninit { up } else { ap }, cap, out);
        }
        "p" => {
            let mut arr: Vec<Header<'_>> = (0..cap).map(sentinel).collect();
            let mut uarr = poison_array(cap);
            let (ap, up) = (arr.as_ptr(), uarr.as_ptr() as *const Header<'_>);
            let mut empty: [Header<'_>; 0] = [];
            let uninit = entry >= 2;
            {
                let mut resp = if uninit { Response::new(&mut empty) } else { Response::new(&mut arr) };
                let r = match entry {
                    0 => resp.parse(buf),
                    1 => conf.parse_response(&mut resp, buf),
                    2 => {
                        // Response has no parse_with_uninit_headers: the default-config call
                        // goes through ParserConfig::default()
                        ParserConfig::default().parse_response_with_uninit_headers(&mut resp, buf, &mut uarr)
                    }
                    _ => conf.parse_response_with_uninit_headers(&mut resp, buf, &mut uarr),
                };
                status(&r, out);
                out.push(' ');
                optnum(resp.version, out);
                out.push(' ');
                optnum(resp.code, out);
                out.push(' ');
                loc_str(buf, resp.reason, out);
                out.push_str(" |");
                slots(buf, resp.headers.as_ptr(), resp.headers.len(), out);
            }
            out.push_str(" |");
            slots(buf, if uninit { up } else { ap }, cap, out);
        }
        _ => panic!("bad kind"),
    }
}

// ---------------------------------------------------------------- a history of calls on one value
struct Call {
    entry: u32,
    cfg: u32,
    ucap: usize,
}

fn hist_case(kind: &str, cap: usize, calls: &[Call], bufs: &[&[u8]], out: &mut String) {
    let mut arr: Vec<Header<'_>> = (0..cap).map(sentinel).collect();
    let mut uarrs: Vec<Vec<MaybeUninit<Header<'_>>>> = calls.iter().map(|c| poison_array(c.ucap)).collect();
    let mut uit = uarrs.iter_mut();
    let last: &[u8] = bufs.last().copied().unwrap_or(&[]);
    let mut vl = 0usize;
    if kind == "q" {
        let mut req = Request::new(&mut arr);
        let mut r = Ok(Status::Partial);
        for (c, b) in calls.iter().zip(bufs.iter()) {
            let u = uit.next().unwrap();
            let conf = config(c.cfg);
            vl = req.headers.len();
            r = match c.entry {
                0 => req.parse(b),
                1 => conf.parse_request(&mut req, b),
                2 => req.parse_with_uninit_headers(b, u),
                _ => conf.parse_request_with_uninit_headers(&mut req, b, u),
            };
        }
        status(&r, out);
        out.push(' ');
        // fields may still point into an earlier buffer: report them relative to the last one,
        // falling back to contents
        loc_str(last, req.method, out);
        out.push(' ');
        loc_str(last, req.path, out);
        out.push(' ');
        optnum(req.version, out);
        out.push_str(" |");
        slots(last, req.headers.as_ptr(), req.headers.len(), out);
        out.push_str(" |");
    } else {
        let mut resp = Response::new(&mut arr);
        let mut r = Ok(Status::Partial);
        for (c, b) in calls.iter().zip(bufs.iter()) {
            let u = uit.next().unwrap();
            let conf = config(c.cfg);
            vl = resp.headers.len();
            r = match c.entry {
                0 => resp.parse(b),
                1 => conf.parse_response(&mut resp, b),
                2 => ParserConfig::default().parse_response_with_uninit_headers(&mut resp, b, u),
                _ => conf.parse_response_with_uninit_headers(&mut resp, b, u),
            };
        }
        status(&r, out);
        out.push(' ');
        optnum(resp.version, out);
        out.push(' ');
        optnum(resp.code, out);
        out.push(' ');
        loc_str(last, resp.reason, out);
        out.push_str(" |");
        slots(last, resp.headers.as_ptr(), resp.headers.len(), out);
        out.push_str(" |");
    }
    write!(out, " ;start={}", vl).unwrap();
}

// ---------------------------------------------------------------- guard pages
struct Guarded {
    base: *mut u8,
    total: usize,
    page: usize,
}
impl Guarded {
    /// three regions: PROT_NONE page | data pages | PROT_NONE page
    fn new(len: usize) -> Guarded {
        // SAFETY: plain mmap/mprotect of fresh anonymous memory
        unsafe {
            let page = libc::sysconf(libc::_SC_PAGESIZE) as usize;
            let data = (len + page - 1) / page * page + page;
            let total = data + 2 * page;
            let base = libc::mmap(
                std::ptr::null_mut(),
                total,
                libc::PROT_READ | libc::PROT_WRITE,
                libc::MAP_PRIVATE | libc::MAP_ANONYMOUS,
                -1,
                0,
            ) as *mut u8;
            assert!(base as isize != -1, "mmap failed");
            assert_eq!(libc::mprotect(base as *mut _, page, libc::PROT_NONE), 0);
            assert_eq!(libc::mprotect(base.add(total - page) as *mut _, page, libc::PROT_NONE), 0);
            Guarded { base, total, page }
        }
    }
    /// the buffer placed so that its last byte is the last byte before the trailing guard page
    fn at_end(&self, data: &[u8]) -> &[u8] {
        // SAFETY: inside the writable region
        unsafe {
            let p = self.base.add(self.total - self.page - data.len());
            std::ptr::copy_nonoverlapping(data.as_ptr(), p, data.len());
            std::slice::from_raw_parts(p, data.len())
        }
    }
    /// the buffer placed so that its first byte is the first byte after the leading guard page
    fn at_start(&self, data: &[u8]) -> &[u8] {
        // SAFETY: inside the writable region
        unsafe {
            let p = self.base.add(self.page);
            std::ptr::copy_nonoverlapping(data.as_ptr(), p, data.len());
            std::slice::from_raw_parts(p, data.len())
        }
    }
}
impl Drop for Guarded {
    fn drop(&mut self) {
        // SAFETY: unmapping what new() mapped
        unsafe {
            libc::munmap(self.base as *mut _, self.total);
        }
    }
}

// ---------------------------------------------------------------- scan / kernels (C12 hook)
#[cfg(httparse_verif)]
fn scan_case(backend: u8, class: u8, align: usize, data: &[u8], out: &mut String) {
    let mut store = vec![0u8; data.len() + 128];
    let base = store.as_ptr() as usize;
    let off = (64 - base % 64) % 64 + align;
    store[off..off + data.len()].copy_from_slice(data);
    match httparse::_verif::scan(backend, class, &store[off..off + data.len()]) {
        Some(p) => write!(out, "{}", p).unwrap(),
        None => out.push_str("NA"),
    }
}
#[cfg(not(httparse_verif))]
fn scan_case(_: u8, _: u8, _: usize, _: &[u8], out: &mut String) {
    out.push_str("NA");
}

#[cfg(httparse_verif)]
fn kernel_case(which: &str, data: &[u8], out: &mut String) {
    const W: usize = httparse::_verif::BLOCK_SIZE;
    if data.len() != W {
        out.push_str("NA");
        return;
    }
    let mut b = [0u8; W];
    b.copy_from_slice(data);
    let n = match which {
        "u" => httparse::_verif::uri_block(b),
        _ => httparse::_verif::header_value_block(b),
    };
    write!(out, "{}", n).unwrap();
}
#[cfg(not(httparse_verif))]
fn kernel_case(_: &str, _: &[u8], out: &mut String) {
    out.push_str("NA");
}

#[cfg(httparse_verif)]
fn force_backend(id: u8) -> bool {
    // a SIMD id is forced only if the CPU really has the feature
    #[cfg(any(target_arch = "x86", target_arch = "x86_64"))]
    {
        if id == 1 && !std::is_x86_feature_detected!("avx2") {
            return false;
        }
        if id == 2 && !std::is_x86_feature_detected!("sse4.2") {
            return false;
        }
    }
    httparse::_verif::set_runtime_feature(id)
}
#[cfg(not(httparse_verif))]
fn force_backend(_: u8) -> bool {
    false
}

#[cfg(httparse_verif)]
fn counters_reset() {
    httparse::_verif::counters::reset()
}
#[cfg(httparse_verif)]
fn counters_read() -> (usize, usize, usize, usize) {
    httparse::_verif::counters::read()
}
#[cfg(not(httparse_verif))]
fn counters_reset() {}
#[cfg(not(httparse_verif))]
fn counters_read() -> (usize, usize, usize, usize) {
    (0, 0, 0, 0)
}

// ---------------------------------------------------------------- case dispatch
#[derive(Clone, Copy, PartialEq)]
enum Mode {
    Run,
    Guard,
    Alloc,
    Work,
    Time,
}

fn run_line(line: &str, mode: Mode, out: &mut String) {
    let f: Vec<&str> = line.split('\t').collect();
    match f[0] {
        "A" => {
            let (kind, entry, cfg, cap) = (f[2], f[3].parse().unwrap(), f[4].parse().unwrap(), f[5].parse().unwrap());
            let data = unhex(f[6]);
            match mode {
                Mode::Run => api_case(kind, entry, cfg, cap, &data, out),
                Mode::Guard => {
                    let g = Guarded::new(data.len());
                    let mut a = String::new();
                    api_case(kind, entry, cfg, cap, g.at_end(&data), &mut a);
                    let mut b = String::new();
                    api_case(kind, entry, cfg, cap, g.at_start(&data), &mut b);
                    if a == b {
                        out.push_str(&a);
                    } else {
                        write!(out, "PLACEMENT-DIFF end=[{}] start=[{}]", a, b).unwrap();
                    }
                }
                Mode::Alloc => {
                    // everything the case needs is allocated before the measured region:
                    // measure a second, identical run whose observation string is discarded
                    // into a pre-sized buffer
                    let mut tmp = String::with_capacity(1 << 16);
                    alloc_case(kind, entry, cfg, cap, &data, &mut tmp, out);
                }
                Mode::Time => {
                    // minimum wall-clock time of 5 runs (after one warm-up run)
                    let mut tmp = String::new();
                    api_case(kind, entry, cfg, cap, &data, &mut tmp);
                    let mut best = u128::MAX;
                    for _ in 0..5 {
                        tmp.clear();
                        let t0 = std::time::Instant::now();
                        api_case(kind, entry, cfg, cap, &data, &mut tmp);
                        best = best.min(t0.elapsed().as_nanos());
                    }
                    let st = tmp.split(' ').next().unwrap_or("").to_string();
                    write!(out, "{} len={} ns={}", st, data.len(), best).unwrap();
                }
                Mode::Work => {
                    counters_reset();
                    let mut tmp = String::new();
                    api_case(kind, entry, cfg, cap, &data, &mut tmp);
                    let (t, p, a, tr) = counters_read();
                    let st = tmp.split(' ').next().unwrap_or("").to_string();
                    write!(out, "{} len={} travel={} peeks={} asrefs={} trimmed={}", st, data.len(), t, p, a, tr).unwrap();
                }
            }
        }
        "H" => {
            let kind = f[2];
            let cap: usize = f[3].parse().unwrap();
            let n: usize = f[4].parse().unwrap();
            let mut calls = Vec::new();
            let mut bufs = Vec::new();
            for i in 0..n {
                let b = 5 + 4 * i;
                calls.push(Call { entry: f[b].parse().unwrap(), cfg: f[b + 1].parse().unwrap(), ucap: f[b + 2].parse().unwrap() });
                bufs.push(unhex(f[b + 3]));
            }
            // the documented loop re-parses ONE growing buffer: whenever a call's buffer is a prefix of the
            // longest buffer of the history it is handed out as a slice of that same allocation, so that
            // fields and header slots left by an earlier call can alias the bytes of a later one
            let longest = bufs.iter().max_by_key(|b| b.len()).cloned().unwrap_or_default();
            let views: Vec<&[u8]> = bufs
                .iter()
                .map(|b| if longest.starts_with(b) { &longest[..b.len()] } else { &b[..] })
                .collect();
            hist_case(kind, cap, &calls, &views, out);
        }
        "L" => {
            // alignment: the buffer is handed out at byte offset `off` (0..63) of a 64-byte aligned arena whose other
            // bytes are `fill` -- in-class filler (`a`) or NUL -- so that a scanner reading a few bytes before or behind
            // the slice, or taking a different path for an aligned start, shows up as a result that depends on `off`
            let (kind, entry, cfg, cap) = (f[2], f[3].parse().unwrap(), f[4].parse().unwrap(), f[5].parse().unwrap());
            let off: usize = f[6].parse().unwrap();
            let fill: u8 = f[7].parse().unwrap();
            let data = unhex(f[8]);
            let mut arena = vec![fill; data.len() + 256];
            let base = (64 - (arena.as_ptr() as usize) % 64) % 64 + 64 + off % 64;
            arena[base..base + data.len()].copy_from_slice(&data);
            api_case(kind, entry, cfg, cap, &arena[base..base + data.len()], out);
        }
        "R" => {
            // a recycled read buffer: every call gets a fresh Request / Response over a fresh array, but the bytes of
            // every call are written to the SAME address (one allocation, overwritten between the calls; nothing of
            // an earlier call is alive when it is overwritten).  The last call is reported exactly as an "A" case is:
            // by the property it depends on its buffer, configuration and capacity only.
            let kind = f[2];
            let n: usize = f[4].parse().unwrap();
            let mut calls = Vec::new();
            let mut bufs = Vec::new();
            for i in 0..n {
                let b = 5 + 4 * i;
                calls.push(Call { entry: f[b].parse().unwrap(), cfg: f[b + 1].parse().unwrap(), ucap: f[b + 2].parse().unwrap() });
                bufs.push(unhex(f[b + 3]));
            }
            let mut arena = vec![0u8; bufs.iter().map(|b| b.len()).max().unwrap_or(0)];
            let mut tmp = String::new();
            for (i, (c, b)) in calls.iter().zip(bufs.iter()).enumerate() {
                arena[..b.len()].copy_from_slice(b);
                tmp.clear();
                api_case(kind, c.entry, c.cfg, c.ucap, &arena[..b.len()], &mut tmp);
                if i + 1 == n {
                    out.push_str(&tmp);
                }
            }
        }
        "S" => {
            let data = unhex(f[5]);
            scan_case(f[2].parse().unwrap(), f[3].parse().unwrap(), f[4].parse().unwrap(), &data, out);
        }
        "K" => {
            let data = unhex(f[3]);
            kernel_case(f[2], &data, out);
        }
        "B" => {
            out.push_str(if force_backend(f[2].parse().unwrap()) { "ok" } else { "NA" });
        }
        _ => panic!("bad case line"),
    }
}

/// allocation count of the parse call alone: the header arrays are built first, the call is
/// bracketed by reads of the allocation counter, nothing is formatted in between
fn alloc_case(kind: &str, entry: u32, cfg: u32, cap: usize, buf: &[u8], _tmp: &mut String, out: &mut String) {
    let conf = config(cfg);
    let mut arr: Vec<Header<'_>> = (0..cap).map(sentinel).collect();
    let mut uarr = poison_array(cap);
    let mut empty: [Header<'_>; 0] = [];
    let uninit = entry >= 2;
    let (before, after, st);
    match kind {
        "c" => {
            before = ALLOCS.load(Ordering::Relaxed);
            let r = httparse::parse_chunk_size(buf);
            after = ALLOCS.load(Ordering::Relaxed);
            st = match r {
                Ok(Status::Complete(_)) => "C".to_string(),
                Ok(Status::Partial) => "P".to_string(),
                Err(_) => "EInvalidChunkSize".to_string(),
            };
        }
        "h" => {
            before = ALLOCS.load(Ordering::Relaxed);
            let r = httparse::parse_headers(buf, &mut arr);
            after = ALLOCS.load(Ordering::Relaxed);
            st = match r {
                Ok(Status::Complete(_)) => "C".to_string(),
                Ok(Status::Partial) => "P".to_string(),
                Err(e) => format!("E{}", err_name(e)),
            };
        }
        "q" => {
            let mut req = if uninit { Request::new(&mut empty) } else { Request::new(&mut arr) };
            before = ALLOCS.load(Ordering::Relaxed);
            let r = match entry {
                0 => req.parse(buf),
                1 => conf.parse_request(&mut req, buf),
                2 => req.parse_with_uninit_headers(buf, &mut uarr),
                _ => conf.parse_request_with_uninit_headers(&mut req, buf, &mut uarr),
            };
            after = ALLOCS.load(Ordering::Relaxed);
            let mut s = String::new();
            status(&r, &mut s);
            st = s;
        }
        _ => {
            let mut resp = if uninit { Response::new(&mut empty) } else { Response::new(&mut arr) };
            before = ALLOCS.load(Ordering::Relaxed);
            let r = match entry {
                0 => resp.parse(buf),
                1 => conf.parse_response(&mut resp, buf),
                2 => ParserConfig::default().parse_response_with_uninit_headers(&mut resp, buf, &mut uarr),
                _ => conf.parse_response_with_uninit_headers(&mut resp, buf, &mut uarr),
            };
            after = ALLOCS.load(Ordering::Relaxed);
            let mut s = String::new();
            status(&r, &mut s);
            st = s;
        }
    }
    // keep only the status class (C<n> -> C)
    let cls: String = if st.starts_with('C') { "C".into() } else { st };
    write!(out, "{} allocs={}", cls, after - before).unwrap();
}

/// a call that does not return is a violation too ("fails to terminate"): a watchdog thread ends the
/// process with exit code 124 and names the case on stderr when one case runs longer than the limit
static WATCH_SEQ: std::sync::atomic::AtomicU64 = std::sync::atomic::AtomicU64::new(0);
static WATCH_ID: std::sync::Mutex<String> = std::sync::Mutex::new(String::new());

fn start_watchdog() {
    let limit: u64 = std::env::var("HV_CASE_TIMEOUT").ok().and_then(|s| s.parse().ok()).unwrap_or(20);
    std::thread::spawn(move || {
        let mut last = u64::MAX;
        let mut since = std::time::Instant::now();
        loop {
            std::thread::sleep(std::time::Duration::from_millis(250));
            let cur = WATCH_SEQ.load(Ordering::Relaxed);
            if cur != last {
                last = cur;
                since = std::time::Instant::now();
            } else if cur % 2 == 1 && since.elapsed().as_secs() >= limit {
                let id = WATCH_ID.lock().map(|g| g.clone()).unwrap_or_default();
                eprintln!("HV-TIMEOUT {} did not return within {} s", id, limit);
                std::process::exit(124);
            }
        }
    });
}

fn run_file(path: &str, mode: Mode) {
    std::panic::set_hook(Box::new(|_| {}));
    start_watchdog();
    let f = std::fs::File::open(path).expect("cases file");
    let stdout = std::io::stdout();
    let mut w = BufWriter::new(stdout.lock());
    for line in std::io::BufReader::new(f).lines() {
        let line = line.unwrap();
        if line.is_empty() {
            continue;
        }
        let id = line.split('\t').nth(1).unwrap_or("?").to_string();
        if let Ok(mut g) = WATCH_ID.lock() {
            g.clear();
            g.push_str(&id);
        }
        WATCH_SEQ.fetch_add(1, Ordering::Relaxed);      // odd: a case is running
        let l2 = line.clone();
        let r = std::panic::catch_unwind(move || {
            let mut out = String::new();
            run_line(&l2, mode, &mut out);
            out
        });
        match r {
            Ok(s) => writeln!(w, "{} {}", id, s).unwrap(),
            Err(e) => {
                let msg = if let Some(s) = e.downcast_ref::<&str>() {
                    s.to_string()
                } else if let Some(s) = e.downcast_ref::<String>() {
                    s.clone()
                } else {
                    "?".to_string()
                };
                writeln!(w, "{} XPANIC {}", id, msg.replace('\n', " ")).unwrap()
            }
        }
        WATCH_SEQ.fetch_add(1, Ordering::Relaxed);      // even: between cases
        // a later case may kill the process (guard page, watchdog): nothing observed so far may be lost
        w.flush().unwrap();
    }
    w.flush().unwrap();
}


// ---------------------------------------------------------------- exhaustive scanner sweeps (C12)
fn rfc_class(cls: u8, b: u8) -> bool {
    match cls {
        0 => (0x21..=0x7e).contains(&b) || b >= 0x80,
        1 => b == 0x09 || (0x20..=0x7e).contains(&b) || b >= 0x80,
        _ => b.is_ascii_alphanumeric() || b"!#$%&'*+-.^_`|~".contains(&b),
    }
}
fn first_out(cls: u8, b: &[u8]) -> usize {
    b.iter().position(|&x| !rfc_class(cls, x)).unwrap_or(b.len())
}

#[cfg(httparse_verif)]
fn sweep(maxlen: usize, full: bool) {
    let mut evals: u64 = 0;
    let mut fails: u64 = 0;
    // class tables against the RFC predicates
    for b in 0..=255u8 {
        let t = [
            (httparse::_verif::is_uri_token(b), rfc_class(0, b), "is_uri_token"),
            (httparse::_verif::is_header_value_token(b), rfc_class(1, b), "is_header_value_token"),
            (httparse::_verif::is_header_name_token(b), rfc_class(2, b), "is_header_name_token"),
            (httparse::_verif::is_method_token(b), rfc_class(2, b), "is_method_token"),
        ];
        for (got, want, name) in t {
            evals += 1;
            if got != want {
                println!("TABLE-FAIL {} byte={} got={} want={}", name, b, got, want);
            }
        }
    }
    let fill = [b'a', b'v', b'n'];
    let mut store = vec![0u8; maxlen + 512];
    let base = 64 + (64 - store.as_ptr() as usize % 64) % 64;
    let mut check = |be: u8, cls: u8, align: usize, data: &[u8], evals: &mut u64, fails: &mut u64, store: &mut Vec<u8>| {
        let off = base + align;
        store[off..off + data.len()].copy_from_slice(data);
        // the byte after the data is in-class, so an overrun is visible as a wrong stop
        store[off + data.len()] = fill[cls as usize];
        if let Some(got) = httparse::_verif::scan(be, cls, &store[off..off + data.len()]) {
            *evals += 1;
            let want = first_out(cls, data);
            if got != want {
                *fails += 1;
                if *fails <= 20 {
                    println!("SWEEP-FAIL {} {} {} {} {} {}", be, cls, align, if data.is_empty() { "-".to_string() } else { hex(data) }, got, want);
                }
            }
        }
        // the same data with the scanner ENTERED MID-BUFFER: `start` bytes (in-class filler ending in CR LF, as after an
        // obsolete line fold) are already consumed and not committed; the scanner must not look at them again
        if (data.len() + align) % 4 == 0 && off >= 40 {
            for &start in &[2usize, 9, 33] {
                let o2 = off - start;
                for k in 0..start {
                    store[o2 + k] = if k + 2 >= start { if k + 2 == start { b'\r' } else { b'\n' } } else { fill[cls as usize] };
                }
                if let Some(got) = httparse::_verif::scan_from(be, cls, &store[o2..off + data.len()], start) {
                    *evals += 1;
                    let want = start + first_out(cls, data);
                    if got != want {
                        *fails += 1;
                        if *fails <= 20 {
                            println!("SWEEP-FAIL {} {} {} {} {} {}", be, cls, align,
                                     hex(&store[o2..off + data.len()]), got, want);
                        }
                    }
                }
            }
        }
    };
    let mut distinct: u64 = 0;
    for be in 0..4u8 {
        for cls in 0..3u8 {
            if httparse::_verif::scan(be, cls, b"a").is_none() {
                continue;
            }
            let f = fill[cls as usize];
            // one offending byte: every length, position and byte value
            for len in 0..=maxlen {
                let mut data = vec![f; len];
                check(be, cls, len % 32, &data, &mut evals, &mut fails, &mut store);
                for pos in 0..len {
                    for v in 0..=255u8 {
                        data[pos] = v;
                        check(be, cls, (len + pos) % 32, &data, &mut evals, &mut fails, &mut store);
                        distinct += 1;
                    }
                    data[pos] = f;
                }
            }
            // two offending positions
            let len = maxlen;
            for bad in [0u8, 0x7f, b' ', b'\r', b'\t', b':'] {
                let mut data = vec![f; len];
                for p1 in 0..len {
                    for p2 in (p1 + 1)..len {
                        data[p1] = bad;
                        data[p2] = 0x7f;
                        check(be, cls, 0, &data, &mut evals, &mut fails, &mut store);
                        distinct += 1;
                        data[p2] = f;
                    }
                    data[p1] = f;
                }
            }
            // adjacent pairs: every value followed by a boundary value, at every position of buffers that
            // end in the word-at-a-time tail (16), straddle one SIMD block (33, 40) or two (70)
            let second: [u8; 44] = [0x00, 0x01, 0x08, 0x09, 0x0a, 0x0b, 0x0c, 0x0d, 0x1f, 0x20, 0x21, 0x22, 0x28, 0x29, 0x2c,
                                    0x2d, 0x2e, 0x2f, 0x30, 0x39, 0x3a, 0x3b, 0x3c, 0x3d, 0x3e, 0x3f, 0x40, 0x41, 0x5a, 0x5b,
                                    0x5c, 0x5d, 0x60, 0x61, 0x7a, 0x7b, 0x7d, 0x7e, 0x7f, 0x80, 0x9f, 0xa0, 0xfe, 0xff];
            for len in [16usize, 33, 40, 70] {
                if len > maxlen + 8 {
                    continue;
                }
                let mut data = vec![f; len];
                for pos in 0..len - 1 {
                    for v1 in 0..=255u8 {
                        data[pos] = v1;
                        for &v2 in second.iter() {
                            data[pos + 1] = v2;
                            check(be, cls, pos % 32, &data, &mut evals, &mut fails, &mut store);
                            distinct += 1;
                        }
                    }
                    data[pos] = f;
                    data[pos + 1] = f;
                }
            }
            // long buffers (unrolled / multi-block fast paths): one offending byte at every position
            for len in [127usize, 128, 129, 160, 191, 192, 193, 255, 256, 257, 300] {
                let mut data = vec![f; len];
                check(be, cls, len % 32, &data, &mut evals, &mut fails, &mut store);
                for pos in 0..len {
                    for bad in [0u8, 0x08, 0x1f, 0x7f, b'\n', b'\r', b' ', b':'] {
                        data[pos] = bad;
                        check(be, cls, (len + pos) % 32, &data, &mut evals, &mut fails, &mut store);
                        distinct += 1;
                    }
                    data[pos] = f;
                }
            }
            // every start alignment 0..31 x lengths around the block sizes
            for align in 0..32usize {
                for len in [0usize, 1, 7, 8, 9, 15, 16, 17, 31, 32, 33, 47, 48, 63, 64, 65] {
                    if len > maxlen {
                        continue;
                    }
                    let mut data = vec![f; len];
                    check(be, cls, align, &data, &mut evals, &mut fails, &mut store);
                    for pos in 0..len {
                        for bad in [0u8, 0x7f, b'\n', b'\t', b' '] {
                            data[pos] = bad;
                            check(be, cls, align, &data, &mut evals, &mut fails, &mut store);
                            distinct += 1;
                        }
                        data[pos] = f;
                    }
                }
            }
        }
    }
    // SWAR block kernels: the target kernel is exact; the value kernel is exact for the class
    // 0x20-0x7E / 0x80-0xFF (HTAB is a conservative stop the loop re-examines)
    const W: usize = httparse::_verif::BLOCK_SIZE;
    let strict = |which: u8, b: u8| -> bool {
        if which == 0 { rfc_class(0, b) } else { (0x20..=0x7e).contains(&b) || b >= 0x80 }
    };
    // boundary values of both classes, plus 0x1f / 0xa0 / 0xff so that carries and borrows
    // between neighbouring bytes of the word are exercised in both directions
    let alpha: [u8; 10] = [0x00, 0x09, 0x1f, 0x20, 0x21, 0x7e, 0x7f, 0x80, 0xa0, 0xff];
    let alpha_small: [u8; 6] = [0x09, 0x1f, 0x20, 0x7f, 0xa0, 0xff];
    let n = if full { 10usize } else { 6 };
    let total = (n as u64).pow(W as u32);
    for which in 0..2u8 {
        for idx in 0..total {
            let mut block = [0u8; W];
            let mut k = idx;
            for b in block.iter_mut() {
                *b = if full { alpha[(k % 10) as usize] } else { alpha_small[(k % 6) as usize] };
                k /= n as u64;
            }
            let got = if which == 0 { httparse::_verif::uri_block(block) } else { httparse::_verif::header_value_block(block) };
            let want = block.iter().position(|&b| !strict(which, b)).unwrap_or(W);
            evals += 1;
            distinct += 1;
            if got != want {
                fails += 1;
                if fails <= 20 {
                    println!("KERNEL-FAIL {} {} {} {}", if which == 0 { "u" } else { "v" }, hex(&block), got, want);
                }
            }
        }
    }
    println!("sweep maxlen={} evaluations={} distinct={} failures={}", maxlen, evals, distinct, fails);
}
#[cfg(not(httparse_verif))]
fn sweep(_: usize, _: bool) {
    println!("NA");
}

// ---------------------------------------------------------------- utf8 (transcription of Model.utf8_valid)
fn utf8_model(l: &[u8]) -> bool {
    let r = |lo: u8, hi: u8, b: u8| lo <= b && b <= hi;
    let mut i = 0;
    while i < l.len() {
        let b0 = l[i];
        if b0 <= 127 {
            i += 1;
            continue;
        }
        if i + 1 >= l.len() {
            return false;
        }
        let b1 = l[i + 1];
        if r(194, 223, b0) {
            if !r(128, 191, b1) {
                return false;
            }
            i += 2;
            continue;
        }
        if i + 2 >= l.len() {
            return false;
        }
        let b2 = l[i + 2];
        if b0 == 224 {
            if !(r(160, 191, b1) && r(128, 191, b2)) {
                return false;
            }
            i += 3;
            continue;
        }
        if r(225, 236, b0) || r(238, 239, b0) {
            if !(r(128, 191, b1) && r(128, 191, b2)) {
                return false;
            }
            i += 3;
            continue;
        }
        if b0 == 237 {
            if !(r(128, 159, b1) && r(128, 191, b2)) {
                return false;
            }
            i += 3;
            continue;
        }
        if i + 3 >= l.len() {
            return false;
        }
        let b3 = l[i + 3];
        let ok = if b0 == 240 {
            r(144, 191, b1)
        } else if r(241, 243, b0) {
            r(128, 191, b1)
        } else if b0 == 244 {
            r(128, 143, b1)
        } else {
            return false;
        };
        if !(ok && r(128, 191, b2) && r(128, 191, b3)) {
            return false;
        }
        i += 4;
    }
    true
}

fn utf8_check(nrandom: u64, seed: u64) {
    let mut bad = 0u64;
    let mut n = 0u64;
    let mut chk = |s: &[u8]| {
        n += 1;
        if utf8_model(s) != std::str::from_utf8(s).is_ok() {
            bad += 1;
            if bad <= 5 {
                println!("UTF8-DIFF {}", hex(s));
            }
        }
    };
    for a in 0..=255u8 {
        chk(&[a]);
        for b in 0..=255u8 {
            chk(&[a, b]);
            if a >= 0x80 {
                for c in 0..=255u8 {
                    chk(&[a, b, c]);
                }
            }
        }
    }
    let mut x = seed.wrapping_mul(0x9E3779B97F4A7C15) | 1;
    let mut next = || {
        x ^= x << 13;
        x ^= x >> 7;
        x ^= x << 17;
        x
    };
    for _ in 0..nrandom {
        let v = next();
        let lead = 0xF0 | ((v & 7) as u8);
        let s = [lead, (v >> 8) as u8 | 0x80, (v >> 16) as u8, (v >> 24) as u8, (v >> 32) as u8];
        let k = 4 + (v >> 40) as usize % 2;
        chk(&s[..k]);
        let t = [(v >> 8) as u8, (v >> 16) as u8, (v >> 24) as u8, (v >> 32) as u8, (v >> 40) as u8, (v >> 48) as u8];
        chk(&t[..(v as usize % 7)]);
    }
    println!("utf8 checked={} diffs={}", n, bad);
}

// ---------------------------------------------------------------- tables / info / race
#[cfg(httparse_verif)]
fn tables() {
    for (name, f) in [
        ("is_method_token", httparse::_verif::is_method_token as fn(u8) -> bool),
        ("is_uri_token", httparse::_verif::is_uri_token),
        ("is_header_name_token", httparse::_verif::is_header_name_token),
        ("is_header_value_token", httparse::_verif::is_header_value_token),
    ] {
        let s: String = (0..=255u8).map(|b| if f(b) { '1' } else { '0' }).collect();
        println!("{} {}", name, s);
    }
    println!("BLOCK_SIZE {}", httparse::_verif::BLOCK_SIZE);
}
#[cfg(not(httparse_verif))]
fn tables() {
    println!("NA");
}

#[cfg(httparse_verif)]
fn info() {
    println!("hooks on");
    println!("debug_assertions {}", cfg!(debug_assertions));
    match httparse::_verif::runtime_feature() {
        Some((cached, detected)) => println!("runtime cached={} detected={}", cached, detected),
        None => println!("runtime none"),
    }
    for be in 0..4u8 {
        for cl in 0..3u8 {
            println!("scan backend={} class={} available={}", be, cl, httparse::_verif::scan(be, cl, b"abc").is_some());
        }
    }
}
#[cfg(not(httparse_verif))]
fn info() {
    println!("hooks off");
    println!("debug_assertions {}", cfg!(debug_assertions));
}

/// cold start: N threads released together make their first parse call; every thread must get
/// the answer a single-threaded call gets
fn race(threads: usize) {
    use std::sync::{Arc, Barrier};
    let buf: &'static [u8] = b"GET /some/long/path/that/needs/several/simd/blocks/0123456789/abcdefghij HTTP/1.1\r\nHost: example.com\r\nAccept: text/html,application/xhtml+xml;q=0.9,*/*;q=0.8\r\n\r\n";
    let bar = Arc::new(Barrier::new(threads));
    let mut hs = Vec::new();
    for _ in 0..threads {
        let bar = bar.clone();
        hs.push(std::thread::spawn(move || {
            let mut s = String::new();
            bar.wait();
            api_case("q", 0, 0, 8, buf, &mut s);
            // locations are relative to the same static buffer, so the strings are comparable
            s
        }));
    }
    let rs: Vec<String> = hs.into_iter().map(|h| h.join().unwrap_or_else(|_| "XPANIC".into())).collect();
    let mut single = String::new();
    api_case("q", 0, 0, 8, buf, &mut single);
    let bad = rs.iter().filter(|r| **r != single).count();
    println!("race threads={} mismatches={} result={}", threads, bad, single);
}

fn main() {
    let args: Vec<String> = std::env::args().collect();
    match args.get(1).map(|s| s.as_str()) {
        Some("run") => run_file(&args[2], Mode::Run),
        Some("guard") => run_file(&args[2], Mode::Guard),
        Some("alloc") => run_file(&args[2], Mode::Alloc),
        Some("work") => run_file(&args[2], Mode::Work),
        Some("time") => run_file(&args[2], Mode::Time),
        Some("utf8") => utf8_check(args[2].parse().unwrap(), args[3].parse().unwrap()),
        Some("tables") => tables(),
        Some("sweep") => sweep(args[2].parse().unwrap(), args.get(3).map(|s| s == "1").unwrap_or(false)),
        Some("info") => info(),
        Some("race") => race(args[2].parse().unwrap()),
        _ => {
            eprintln!("usage: hv-harness run|guard|alloc|work <cases> | utf8 <n> <seed> | tables | info | race <n>");
            std::process::exit(2);
        }
    }
}
