use httparse::{Request, Response, ParserConfig, parse_headers, parse_chunk_size, EMPTY_HEADER};
fn main() {
    let buf: Vec<u8> = b"GET / HTTP/1.1\r\nHost: example.org\r\n\r\n".to_vec();
    let mut headers = [EMPTY_HEADER; 4];
    let mut req = Request::new(&mut headers);
    let _ = req.parse(&buf);
    println!("{:?} {:?} {}", req.method, req.path, req.headers.len());
    let rbuf: Vec<u8> = b"HTTP/1.1 200 OK\r\nA: b\r\n\r\n".to_vec();
    let mut h2 = [EMPTY_HEADER; 4];
    let mut res = Response::new(&mut h2);
    let _ = ParserConfig::default().parse_response(&mut res, &rbuf);
    println!("{:?} {:?}", res.code, res.reason);
    let mut h3 = [EMPTY_HEADER; 2];
    let _ = parse_headers(b"A: b\r\n\r\n", &mut h3);
    let _ = parse_chunk_size(b"4\r\n");
}
