use httparse::{Header, Response, EMPTY_HEADER};
fn f() -> &'static [u8] {
    let mut headers: [Header<'static>; 4] = [EMPTY_HEADER; 4];
    let buf: Vec<u8> = b"HTTP/1.1 200 OK\r\nServer: demo\r\n\r\n".to_vec();
    {
        let mut res = Response::new(&mut headers);
        let _ = res.parse(&buf);
    }
    drop(buf);
    headers[0].value
}
fn main() { println!("{:?}", f()); }
