use httparse::{Request, EMPTY_HEADER};
fn main() {
    let mut headers = [EMPTY_HEADER; 4];
    let mut buf: Vec<u8> = b"GET /index HTTP/1.1\r\n\r\n".to_vec();
    let mut req = Request::new(&mut headers);
    let _ = req.parse(&buf);
    buf[5] = b'x';
    println!("{:?}", req.path);
}
