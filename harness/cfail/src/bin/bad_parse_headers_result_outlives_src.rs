use httparse::{parse_headers, Status, EMPTY_HEADER};
fn main() {
    let mut headers = [EMPTY_HEADER; 4];
    let name;
    {
        let src: Vec<u8> = b"Host: example.org\r\n\r\n".to_vec();
        match parse_headers(&src, &mut headers) {
            Ok(Status::Complete((_, hs))) => name = hs[0].name,
            _ => return,
        }
    }
    println!("{}", name);
}
