use core::mem::MaybeUninit;
use httparse::{Header, ParserConfig, Response};
fn main() {
    let mut uarr: [MaybeUninit<Header<'_>>; 4] = [MaybeUninit::uninit(); 4];
    let mut res = Response::new(&mut []);
    let cfg = ParserConfig::default();
    {
        let buf: Vec<u8> = b"HTTP/1.1 200 OK\r\nA: b\r\n\r\n".to_vec();
        let _ = cfg.parse_response_with_uninit_headers(&mut res, &buf, &mut uarr);
    }
    println!("{:?}", res.reason);
}
