use core::mem::MaybeUninit;
use httparse::{Header, Request};
fn main() {
    let mut uarr: [MaybeUninit<Header<'_>>; 4] = [MaybeUninit::uninit(); 4];
    let mut req = Request::new(&mut []);
    {
        let buf: Vec<u8> = b"GET / HTTP/1.1\r\nHost: example.org\r\n\r\n".to_vec();
        let _ = req.parse_with_uninit_headers(&buf, &mut uarr);
    }
    println!("{}", req.headers.len());
}
