use httparse::{Header, Request, EMPTY_HEADER};
fn f() -> &'static str {
    let mut headers: [Header<'static>; 4] = [EMPTY_HEADER; 4];
    let buf: Vec<u8> = b"GET / HTTP/1.1\r\nHost: example.org\r\n\r\n".to_vec();
    {
        let mut req = Request::new(&mut headers);
        let _ = req.parse(&buf);
    }
    drop(buf);
    headers[0].name
}
fn main() { println!("{}", f()); }
