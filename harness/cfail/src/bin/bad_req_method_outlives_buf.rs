use httparse::{Request, EMPTY_HEADER};
fn main() {
    let mut headers = [EMPTY_HEADER; 4];
    let mut req = Request::new(&mut headers);
    {
        let buf: Vec<u8> = b"GET / HTTP/1.1\r\n\r\n".to_vec();
        let _ = req.parse(&buf);
    }
    println!("{:?}", req.method);
}
