use httparse::{Request, EMPTY_HEADER};
fn main() {
    for msg in [&b"GET /a HTTP/1.1\r\nA: 1\r\n\r\n"[..], &b"GET /b HTTP/1.1\r\nB: 2\r\n\r\n"[..]] {
        let buf: Vec<u8> = msg.to_vec();
        let mut headers = [EMPTY_HEADER; 4];
        let mut req = Request::new(&mut headers);
        let _ = req.parse(&buf);
        println!("{:?}", req.path);
    }
}
