use httparse::{Response, EMPTY_HEADER};
fn main() {
    let mut headers = [EMPTY_HEADER; 4];
    let mut res = Response::new(&mut headers);
    {
        let buf: Vec<u8> = b"HTTP/1.1 200 OK\r\n\r\n".to_vec();
        let _ = res.parse(&buf);
    }
    println!("{:?}", res.reason);
}
