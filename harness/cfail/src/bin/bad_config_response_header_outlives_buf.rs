use httparse::{ParserConfig, Response, EMPTY_HEADER};
fn main() {
    let mut headers = [EMPTY_HEADER; 4];
    let mut res = Response::new(&mut headers);
    let cfg = ParserConfig::default();
    {
        let buf: Vec<u8> = b"HTTP/1.1 200 OK\r\nA: b\r\n\r\n".to_vec();
        let _ = cfg.parse_response(&mut res, &buf);
    }
    println!("{:?}", res.headers[0].value);
}
