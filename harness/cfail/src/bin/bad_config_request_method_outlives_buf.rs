use httparse::{ParserConfig, Request, EMPTY_HEADER};
fn main() {
    let mut headers = [EMPTY_HEADER; 4];
    let mut req = Request::new(&mut headers);
    let cfg = ParserConfig::default();
    {
        let buf: Vec<u8> = b"GET / HTTP/1.1\r\n\r\n".to_vec();
        let _ = cfg.parse_request(&mut req, &buf);
    }
    println!("{:?}", req.method);
}
