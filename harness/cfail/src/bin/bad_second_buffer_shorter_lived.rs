use httparse::{Request, EMPTY_HEADER};
fn main() {
    let mut headers = [EMPTY_HEADER; 4];
    let buf1: Vec<u8> = b"GET /a HTTP/1.1\r\n\r\n".to_vec();
    let mut req = Request::new(&mut headers);
    let _ = req.parse(&buf1);
    {
        let buf2: Vec<u8> = b"GET /b HTTP/1.1\r\n\r\n".to_vec();
        let _ = req.parse(&buf2);
    }
    println!("{:?}", req.path);
}
